// Package verifrt is the runtime that /verif injects into the repository
// module (as github.com/teivah/majorana/verifrt) through `go build -overlay`.
// It exists only in instrumented builds; /repo itself never contains it.
//
// It owns three things for the explorers:
//   - budgets: Tick() at every loop head, Cycle() at every cycle boundary of a
//     CPU.Run loop, so that a hang becomes a recoverable panic(Abort{..});
//   - nondeterminism: Order() replaces every `range` over a map, returning
//     the keys in a canonical order permuted by an explicit, recorded choice;
//   - goroutines: Go()/Send() wrap `go` statements and channel sends so that
//     iterator goroutines abandoned by an early `break` are released at the end
//     of an execution instead of leaking, and panics in spawned goroutines are
//     recorded instead of killing the worker.
package verifrt

import (
	"fmt"
	"reflect"
	"runtime"
	"sort"
	"sync"
	"sync/atomic"
)

// Abort is the panic value used for every budget / replay failure.
type Abort struct {
	Reason string // "cycle-budget", "tick-budget", "stall", "replay-divergence"
	Ticks  int64
	Cycles int64
}

func (a Abort) Error() string {
	return fmt.Sprintf("verifrt abort: %s (ticks=%d cycles=%d)", a.Reason, a.Ticks, a.Cycles)
}

var (
	Ticks           int64
	Cycles          int64
	ticksSinceCycle int64
	spawnedTicks    atomic.Int64

	MaxTicks         int64 = 1 << 62
	MaxCycles        int64 = 1 << 62
	MaxTicksPerCycle int64 = 1 << 62

	// OnCycle is called at every cycle boundary (after the budget test).
	OnCycle func()
)

// Point is one recorded choice point.
type Point struct {
	N      int // number of keys / enabled alternatives' base size
	Alts   int // number of alternatives offered (>= 2)
	Chosen int
}

var (
	// Explore enables recording of choice points and replay of Prefix.
	Explore bool
	Prefix  []int
	Trace   []Point
	// FullPermLimit: maps with at most this many keys offer all n! orders.
	FullPermLimit = 4
	// MapOrderChoices: map ranges are choice points (false: canonical order only,
	// used when only scheduling choices are explored).
	MapOrderChoices = true
)

// Begin starts one execution: resets counters, budgets and the choice trace.
func Begin(maxCycles, maxTicksPerCycle, maxTicks int64, explore bool, prefix []int) {
	Ticks, Cycles, ticksSinceCycle = 0, 0, 0
	spawnedTicks.Store(0)
	MaxCycles, MaxTicksPerCycle, MaxTicks = maxCycles, maxTicksPerCycle, maxTicks
	Explore = explore
	Prefix = prefix
	Trace = Trace[:0]
	spawnMu.Lock()
	spawnFailure = ""
	spawnMu.Unlock()
	ch := make(chan struct{})
	epoch.Store(&ch)
}

// End finishes one execution: lifts the budgets and releases every goroutine
// still blocked in Send (abandoned iterators).
func End() {
	MaxTicks, MaxCycles, MaxTicksPerCycle = 1<<62, 1<<62, 1<<62
	OnCycle = nil
	Explore = false
	Prefix = nil
	if p := epoch.Swap(nil); p != nil {
		close(*p)
	}
}

func Tick() {
	Ticks++
	ticksSinceCycle++
	if Ticks > MaxTicks {
		panic(Abort{"tick-budget", Ticks, Cycles})
	}
	if ticksSinceCycle > MaxTicksPerCycle {
		panic(Abort{"stall", Ticks, Cycles})
	}
}

// TickSpawned is used inside `go func(){..}` literals: it never panics
// (a panic there cannot be recovered by the harness).
func TickSpawned() {
	spawnedTicks.Add(1)
	if s := sched; s != nil && s.virtual {
		s.yield(nil)
	}
}

func SpawnedTicks() int64 { return spawnedTicks.Load() }

func Cycle() {
	Cycles++
	ticksSinceCycle = 0
	if Cycles > MaxCycles {
		panic(Abort{"cycle-budget", Ticks, Cycles})
	}
	if OnCycle != nil {
		OnCycle()
	}
	if s := sched; s != nil && s.cycles {
		s.yield(nil)
	}
}

// ---------------------------------------------------------------- goroutines

var (
	epoch        atomic.Pointer[chan struct{}]
	spawnMu      sync.Mutex
	spawnFailure string
	Spawned      atomic.Int64
)

// SpawnFailure returns the first panic recorded in a spawned goroutine during
// the current execution ("" if none).
func SpawnFailure() string {
	spawnMu.Lock()
	defer spawnMu.Unlock()
	return spawnFailure
}

// Go replaces the `go` statement.
func Go(f func()) {
	Spawned.Add(1)
	if s := sched; s != nil && s.virtual {
		s.spawn(f)
		return
	}
	go func() {
		defer func() {
			if r := recover(); r != nil {
				spawnMu.Lock()
				if spawnFailure == "" {
					spawnFailure = fmt.Sprint(r)
				}
				spawnMu.Unlock()
			}
		}()
		f()
	}()
}

// SendSpawned replaces `ch <- v` lexically inside a `go func(){..}` literal
// (iterator goroutines). Outside an execution it is a plain send. Inside an
// execution a send that is still blocked when the execution ends makes the
// goroutine exit (the consumer abandoned the iteration).
func SendSpawned[T any](ch chan<- T, v T) {
	if s := sched; s != nil && s.virtual {
		c := s.vch(ch)
		if c.cap == 0 {
			// rendezvous: offer the value, continue once the receiver took it
			s.yield(func() bool { return len(c.buf) == 0 })
			c.buf = append(c.buf, v)
			s.yield(func() bool { return len(c.buf) == 0 })
			return
		}
		s.yield(func() bool { return len(c.buf) < c.cap })
		c.buf = append(c.buf, v)
		// the receiver may take the value (and act on it) before the sender's
		// next statement runs
		s.yield(nil)
		return
	}
	p := epoch.Load()
	if p == nil {
		ch <- v
		return
	}
	select {
	case ch <- v:
	case <-*p:
		runtime.Goexit()
	}
}

// Send replaces `ch <- v` on the simulator's own goroutine. Nothing else can
// receive while that goroutine is blocked, so a send that would block is a
// deadlock: it is reported instead of hanging the process.
func Send[T any](ch chan<- T, v T) {
	select {
	case ch <- v:
	default:
		panic(Abort{"deadlock", Ticks, Cycles})
	}
}

// ---------------------------------------------------------------- map order

func choose(n, alts int) int {
	i := len(Trace)
	c := 0
	if i < len(Prefix) {
		c = Prefix[i]
		if c < 0 || c >= alts {
			panic(Abort{"replay-divergence", Ticks, Cycles})
		}
	}
	Trace = append(Trace, Point{N: n, Alts: alts, Chosen: c})
	return c
}

func fact(n int) int {
	f := 1
	for i := 2; i <= n; i++ {
		f *= i
	}
	return f
}

// NumAlts is the number of orders offered for a map with n >= 2 keys:
// all n! for n <= FullPermLimit, otherwise identity + (n-1) adjacent
// transpositions + (n-1) rotations + reversal.
func NumAlts(n int) int {
	if n <= FullPermLimit {
		return fact(n)
	}
	return 1 + (n - 1) + (n - 1) + 1
}

// Permute applies alternative c to keys (in place, returns keys).
func Permute[K any](keys []K, c int) []K {
	n := len(keys)
	if c == 0 || n < 2 {
		return keys
	}
	if n <= FullPermLimit {
		// c-th permutation in lexicographic order (factorial number system)
		src := append([]K(nil), keys...)
		out := keys[:0]
		f := fact(n - 1)
		for i := n - 1; i >= 0; i-- {
			j := c / f
			c %= f
			out = append(out, src[j])
			src = append(src[:j], src[j+1:]...)
			if i > 0 {
				f /= i
			}
		}
		return out
	}
	switch {
	case c <= n-1: // adjacent transposition (c-1, c)
		keys[c-1], keys[c] = keys[c], keys[c-1]
	case c <= 2*(n-1): // rotation by r = c-(n-1)
		r := c - (n - 1)
		tmp := append(append([]K(nil), keys[r:]...), keys[:r]...)
		copy(keys, tmp)
	default: // reversal
		for i, j := 0, n-1; i < j; i, j = i+1, j-1 {
			keys[i], keys[j] = keys[j], keys[i]
		}
	}
	return keys
}

func enc(v reflect.Value, depth int) string {
	switch v.Kind() {
	case reflect.Ptr, reflect.Interface:
		if v.IsNil() || depth > 3 {
			return "nil"
		}
		return enc(v.Elem(), depth+1)
	case reflect.Struct:
		s := "{"
		for i := 0; i < v.NumField(); i++ {
			f := v.Field(i)
			switch f.Kind() {
			case reflect.Chan, reflect.Func, reflect.Map, reflect.Slice, reflect.UnsafePointer:
				continue
			}
			s += enc(f, depth+1) + ","
		}
		return s + "}"
	case reflect.Array:
		s := "["
		for i := 0; i < v.Len(); i++ {
			s += enc(v.Index(i), depth+1) + ","
		}
		return s + "]"
	case reflect.Int, reflect.Int8, reflect.Int16, reflect.Int32, reflect.Int64:
		return fmt.Sprintf("%020d", uint64(v.Int())+(1<<63))
	case reflect.Uint, reflect.Uint8, reflect.Uint16, reflect.Uint32, reflect.Uint64:
		return fmt.Sprintf("%020d", v.Uint())
	case reflect.String:
		return v.String()
	case reflect.Bool:
		if v.Bool() {
			return "1"
		}
		return "0"
	}
	return v.Kind().String()
}

// Order returns the keys of m in the canonical order (typed sort; pointer keys
// by printed pointee) permuted by the explorer's choice for this choice point.
// Choice 0 is the canonical order, which is one of the orders Go may produce.
func Order[K comparable, V any](m map[K]V) []K {
	keys := make([]K, 0, len(m))
	for k := range m {
		keys = append(keys, k)
	}
	n := len(keys)
	if n < 2 {
		return keys
	}
	switch reflect.TypeOf(keys[0]).Kind() {
	case reflect.Int, reflect.Int8, reflect.Int16, reflect.Int32, reflect.Int64:
		sort.Slice(keys, func(i, j int) bool {
			return reflect.ValueOf(keys[i]).Int() < reflect.ValueOf(keys[j]).Int()
		})
	case reflect.Uint, reflect.Uint8, reflect.Uint16, reflect.Uint32, reflect.Uint64:
		sort.Slice(keys, func(i, j int) bool {
			return reflect.ValueOf(keys[i]).Uint() < reflect.ValueOf(keys[j]).Uint()
		})
	default:
		encs := make(map[K]string, n)
		for _, k := range keys {
			encs[k] = enc(reflect.ValueOf(k), 0)
		}
		sort.SliceStable(keys, func(i, j int) bool { return encs[keys[i]] < encs[keys[j]] })
	}
	if !Explore || !MapOrderChoices {
		return keys
	}
	return Permute(keys, choose(n, NumAlts(n)))
}

// ---------------------------------------------------------------- MSI snapshots
//
// Plain data exported by the verif-only snapshot / rig files that /verif adds
// to mvp7-0, mvp7-1 and mvp8-0 through the overlay.

type MSILine struct {
	Base int32
	Data []int8 // not copied: valid until the next simulated cycle
}

type MSIState struct {
	Core  int
	Line  int32
	State int32 // 0 invalid, 1 shared, 2 modified
}

type MSICommand struct {
	Core    int
	Line    int32
	Request int32
}

type MSISem struct {
	Line        int32
	Read, Write int
}

type MSISnap struct {
	Cores      int
	LineSize   int32
	States     []MSIState
	Commands   []MSICommand
	Sems       []MSISem
	Held       [][]int32   // per core: lines whose lock this core's controller currently holds
	L1         [][]MSILine // per core, MRU first
	L3         []MSILine   // MVP-8 only
	L3LineSize int32
	Memory     []int8 // the context's memory (not copied)
}

// MSISnapshotter is implemented by the CPUs of the MSI variants in verif builds.
type MSISnapshotter interface {
	VerifSnapshot() MSISnap
}

// ---------------------------------------------------------------- cooperative scheduler
//
// Used by C08: exactly one managed thread runs at a time; at every scheduling
// point the next thread is an explicit, recorded choice (same Trace/Prefix
// mechanism as map orders). Two modes:
//   virtual  : goroutines spawned through Go() become managed threads and the
//              channels they use are emulated (SendSpawned / CloseSpawned /
//              Recv), TickSpawned is a scheduling point — iterator goroutines;
//   cycles   : Cycle() is a scheduling point — two machines interleaved at
//              cycle boundaries.

type thread struct {
	id     int
	wake   chan struct{}
	done   bool
	canRun func() bool // nil = runnable
}

type scheduler struct {
	threads  []*thread
	cur      *thread
	virtual  bool
	cycles   bool
	kill     chan struct{}
	chans    map[uintptr]*vchan
	deadlock bool
	failure  string
}

type vchan struct {
	buf    []any
	cap    int
	closed bool
}

var sched *scheduler

type schedKilled struct{}

// SchedRun runs the given thread bodies under the cooperative scheduler until
// all of them have returned or no thread can run. bodies[0] runs on the
// calling goroutine. It returns (deadlock, first panic message of a thread).
func SchedRun(virtual, cycles bool, bodies ...func()) (deadlock bool, failure string) {
	s := &scheduler{virtual: virtual, cycles: cycles, kill: make(chan struct{}), chans: map[uintptr]*vchan{}}
	sched = s
	defer func() {
		sched = nil
		close(s.kill)
	}()
	main := &thread{id: 0, wake: make(chan struct{}, 1)}
	s.threads = append(s.threads, main)
	s.cur = main
	for i := 1; i < len(bodies); i++ {
		s.spawn(bodies[i])
	}
	func() {
		defer func() {
			if r := recover(); r != nil {
				if _, ok := r.(schedKilled); !ok {
					if a, isAbort := r.(Abort); isAbort {
						panic(a)
					}
					if s.failure == "" {
						s.failure = fmt.Sprint(r)
					}
				}
			}
		}()
		bodies[0]()
	}()
	main.done = true
	// let the remaining threads finish (e.g. the second machine)
	for !s.deadlock {
		next := s.pick(false)
		if next == nil {
			break
		}
		s.cur = next
		next.wake <- struct{}{}
		<-main.wake
	}
	return s.deadlock, s.failure
}

func (s *scheduler) spawn(f func()) {
	t := &thread{id: len(s.threads), wake: make(chan struct{}, 1)}
	s.threads = append(s.threads, t)
	go func() {
		select {
		case <-t.wake:
		case <-s.kill:
			return
		}
		defer func() {
			if r := recover(); r != nil {
				if _, ok := r.(schedKilled); ok {
					return
				}
				if s.failure == "" {
					s.failure = fmt.Sprint(r)
				}
			}
			t.done = true
			// hand the processor to somebody else; thread 0 drives the tail
			next := s.pick(false)
			if next == nil {
				next = s.threads[0]
			}
			s.cur = next
			next.wake <- struct{}{}
		}()
		f()
	}()
}

// pick chooses the next thread among the enabled ones (the current one first
// if it is still enabled, then ascending ids). includeCur=false when the
// current thread cannot continue.
func (s *scheduler) pick(includeCur bool) *thread {
	var enabled []*thread
	if includeCur && s.cur != nil && !s.cur.done {
		enabled = append(enabled, s.cur)
	}
	for _, t := range s.threads {
		if t == s.cur && includeCur {
			continue
		}
		if t.done || (t == s.cur && !includeCur) {
			continue
		}
		if t.canRun == nil || t.canRun() {
			enabled = append(enabled, t)
		}
	}
	if len(enabled) == 0 {
		for _, t := range s.threads {
			if !t.done && t != s.threads[0] {
				// somebody is blocked forever; abandoned iterator goroutines are legal
				// (the consumer broke out of the loop), so this is only a deadlock when
				// thread 0 itself is blocked
			}
		}
		return nil
	}
	if len(enabled) == 1 {
		return enabled[0]
	}
	c := 0
	if Explore {
		c = choose(len(enabled), len(enabled))
	}
	return enabled[c]
}

func (s *scheduler) park(t *thread) {
	select {
	case <-t.wake:
	case <-s.kill:
		panic(schedKilled{})
	}
}

// yield is a scheduling point for the current thread; canRun != nil means the
// thread is blocked until canRun() holds.
func (s *scheduler) yield(canRun func() bool) {
	t := s.cur
	t.canRun = canRun
	for {
		runnable := canRun == nil || canRun()
		next := s.pick(runnable)
		if next == nil {
			if runnable {
				t.canRun = nil
				return
			}
			if t.id == 0 {
				s.deadlock = true
				panic(Abort{"deadlock", Ticks, Cycles})
			}
			// an iterator goroutine whose consumer abandoned the iteration stays
			// blocked for good: a leak, not a deadlock of the simulator
			// a blocked non-main thread with nobody else to run: give control back to thread 0's driver
			s.cur = s.threads[0]
			s.threads[0].wake <- struct{}{}
			s.park(t)
			continue
		}
		if next == t {
			t.canRun = nil
			return
		}
		s.cur = next
		next.wake <- struct{}{}
		s.park(t)
		// woken up: we are current again
		if canRun == nil || canRun() {
			t.canRun = nil
			return
		}
	}
}

// SchedYield is an explicit scheduling point (used by harness code).
func SchedYield() {
	if s := sched; s != nil {
		s.yield(nil)
	}
}

func (s *scheduler) vch(ch any) *vchan {
	v := reflect.ValueOf(ch)
	k := v.Pointer()
	c := s.chans[k]
	if c == nil {
		c = &vchan{cap: v.Cap()}
		s.chans[k] = c
	}
	return c
}

// Recv is the receive operation for harness code running under the scheduler;
// outside the scheduler it is a plain receive.
func Recv[T any](ch <-chan T) (T, bool) {
	s := sched
	if s == nil || !s.virtual {
		v, ok := <-ch
		return v, ok
	}
	c := s.vch(ch)
	s.yield(func() bool { return len(c.buf) > 0 || c.closed })
	var zero T
	if len(c.buf) == 0 {
		return zero, false
	}
	v := c.buf[0].(T)
	c.buf = c.buf[1:]
	return v, true
}

// CloseSpawned replaces close(ch) inside go-literals.
func CloseSpawned[T any](ch chan T) {
	if s := sched; s != nil && s.virtual {
		s.yield(nil)
		s.vch(ch).closed = true
		return
	}
	close(ch)
}
