#!/bin/bash
# (author only) re-curate the known-finding case lists of the PX/RX properties for one tier.
# usage: tools/curate_all.sh quick|thorough [props...]
cd /verif
tier=${1:-quick}; shift
props=${@:-C01 C03 C04 C05 C06 C07 C08 C09 C10 C12 C15}
for p in $props; do
  /usr/bin/time -f "$p $tier curate wall=%es" bin/vcheck curate $p --tier $tier 2>&1 | grep "wall=\|^curate"
done
