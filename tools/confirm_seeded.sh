#!/bin/bash
# (author only) confirm a seeded change in a scratch worktree: applies, builds, existing suite passes
# (except the 3 risc tests failing at the pinned commit), demonstration fails with / passes without.
# usage: tools/confirm_seeded.sh <srcdir with patch.diff + *_test.go> <worktree> [full]
src=$1; wt=$2; full=${3:-full}
export GOFLAGS=-mod=mod GOPROXY=off GOSUMDB=off GOTOOLCHAIN=local
cd $wt || exit 2
git checkout -q -- . && git clean -fdq
demo=$(ls $src/*_test.go | head -1)
pkg=$(grep -m1 '^package ' $demo | awk '{print $2}')
case $pkg in
  proc) dir=proc;; comp|comp_test) dir=proc/comp;; risc|risc_test) dir=risc;; cache|cache_test) dir=common/cache;;
  mvp7_0) dir=proc/mvp7-0;; mvp7_1) dir=proc/mvp7-1;; mvp8_0) dir=proc/mvp8-0;; bytes|bytes_test) dir=common/bytes;; ds|ds_test) dir=common/ds;;
  *) echo "UNKNOWN-PACKAGE $pkg"; exit 2;;
esac
name=zz_seeded_demo_test.go
tests=$(grep -o '^func Test[A-Za-z0-9_]*' $demo | sed 's/func //' | paste -sd'|')
echo "demo=$demo pkg=$pkg dir=$dir tests=$tests"
# 1. without the change: demo passes
cp $demo $dir/$name
if timeout 1200 go test -vet=off -count=1 -run "^($tests)\$" ./$dir/ > /tmp/confirm.$$.a 2>&1; then echo "DEMO-WITHOUT-CHANGE: pass"; else echo "DEMO-WITHOUT-CHANGE: FAIL"; tail -5 /tmp/confirm.$$.a; fi
# 2. with the change
git apply $src/patch.diff || { echo "PATCH-DOES-NOT-APPLY"; exit 3; }
if go build ./... ; then echo "BUILD: ok"; else echo "BUILD: FAIL"; fi
if timeout 1200 go test -vet=off -count=1 -run "^($tests)\$" ./$dir/ > /tmp/confirm.$$.b 2>&1; then echo "DEMO-WITH-CHANGE: pass (UNEXPECTED)"; else echo "DEMO-WITH-CHANGE: fail (expected)"; grep -m3 -- "--- FAIL\|panic:\|timed out" /tmp/confirm.$$.b; fi
rm -f $dir/$name
# 3. existing suite with the change
if [ "$full" = full ]; then
  go test -vet=off -count=1 -timeout 60m ./... > /tmp/confirm.$$.c 2>&1
  fails=$(grep -- "^--- FAIL" /tmp/confirm.$$.c | awk '{print $3}' | sort | paste -sd,)
  echo "SUITE-WITH-CHANGE: failing tests = [$fails] (TestSbLb,TestShLh,TestSwLw fail at the pinned commit too)"
  grep "^ok\|^FAIL" /tmp/confirm.$$.c | tr '\n' ';'; echo
fi
git checkout -q -- . && git clean -fdq
rm -f /tmp/confirm.$$.*
