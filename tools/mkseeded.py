#!/usr/bin/env python3
"""(author only) package the seeded changes written by sub-agents into /verif/seeded/<id>/.

Inputs: /tmp/seeded/<Cxx>/<i>/ (round 1: i = 1, 2) /tmp/seeded2/<Cxx>/<i-2>/ (round 2: i = 3, 4) and /tmp/seeded3/<Cxx>/<i-4>/ (round 3: i = 5, 6) and /tmp/seeded4/<Cxx>/<i-6>/ (round 4: i = 7, 8; sources that are gone keep their packaged directory) {patch.diff, *_test.go, README.md, confirm.log}, /tmp/onrepo.log
(results of tools/test_seeded_on_repo.sh) and tools/seeded_table.py."""
import glob, json, os, re, shutil

exec(open('/verif/tools/seeded_table.py').read())

onrepo = {}
cur = None
if os.path.exists('/tmp/onrepo.log'):
    for line in open('/tmp/onrepo.log'):
        line = line.strip()
        if line.startswith('== '):
            cur = line[3:]
            onrepo[cur] = []
        elif cur and re.match(r'^C\d\d exit=', line):
            onrepo[cur].append(line)

rows = []
for key, v in sorted(SEEDED.items()):
    prop, i = key.split('-')
    src = f'/tmp/seeded/{prop}/{i}' if int(i) <= 2 else (f'/tmp/seeded2/{prop}/{int(i) - 2}' if int(i) <= 4 else (f'/tmp/seeded3/{prop}/{int(i) - 4}' if int(i) <= 6 else f'/tmp/seeded4/{prop}/{int(i) - 6}'))
    if not os.path.exists(f'{src}/patch.diff'):
        if os.path.exists(f'/verif/seeded/{key}/meta.json'):
            m = json.load(open(f'/verif/seeded/{key}/meta.json'))
            rows.append((key, m['what'], ', '.join(m['caught_by_quick_checks']) or 'NOT CAUGHT', m.get('history', '')))
        continue
    dst = f'/verif/seeded/{key}'
    os.makedirs(dst, exist_ok=True)
    old = json.load(open(f'{dst}/meta.json')) if os.path.exists(f'{dst}/meta.json') else {}
    if 'rebased' not in old:  # a patch rebased by hand onto a later fix is kept
        shutil.copy(f'{src}/patch.diff', f'{dst}/patch.diff')
    demos = sorted(glob.glob(f'{src}/*_test.go'))
    for d in demos[:1]:
        shutil.copy(d, f'{dst}/{os.path.basename(d)}')
    if os.path.exists(f'{src}/README.md'):
        shutil.copy(f'{src}/README.md', f'{dst}/AUTHOR_README.md')
    confirm = open(f'{src}/confirm.log').read().strip().splitlines() if os.path.exists(f'{src}/confirm.log') else []
    ran = [l for l in confirm if re.match(r'^(demo=|DEMO-|BUILD|SUITE|PATCH)', l)]
    detected = onrepo.get(key, [])
    caught = [l.split()[0] for l in detected if 'exit=1' in l and 'violations=0' not in l]
    meta = {
        'id': key,
        'property_broken': prop,
        'written_by': 'fresh sub-agent given only the property text and its own scratch worktree of /repo (nothing from /verif)',
        'files_touched': v['files'],
        'what': v['what'],
        'needs_to_manifest': v['needs'],
        'demonstration': os.path.basename(demos[0]) if demos else None,
        'confirmed_in_scratch_worktree': ran,
        'checks_run_against_repo_with_change_applied': detected,
        'caught_by_quick_checks': caught,
        'history': v.get('first_missed', ''),
    }
    if 'rebased' in old:
        meta['rebased'] = old['rebased']
    json.dump(meta, open(f'{dst}/meta.json', 'w'), indent=1)
    rows.append((key, v['what'], ', '.join(caught) if caught else 'NOT CAUGHT', v.get('first_missed', '')))

with open('/verif/seeded/INDEX.md', 'w') as f:
    f.write('# Seeded property-breaking changes\n\nEach directory: patch.diff (apply with `git -C /repo apply`), the demonstration test (fails with the change, passes without), AUTHOR_README.md (the sub-agent\'s own notes) and meta.json.\n\n')
    f.write('| id | change | caught by (quick tier, change applied to /repo) | what had to be strengthened first |\n|---|---|---|---|\n')
    for r in rows:
        f.write('| %s | %s | %s | %s |\n' % r)
print('packaged', len(rows))
