#!/bin/bash
# Screening aid (not a registered command): apply a patch in a scratch worktree and run the quick
# checks against that tree through the overlay (VERIF_ALT_TREE); /repo is not touched.
# usage: tools/screen.sh <worktree> <patch.diff> [props...]   -> prints "<prop> <exit> <violations>"
wt=$1; patch=$2; shift 2
props=${@:-C01 C02 C03 C04 C05 C06 C07 C08 C09 C10 C11 C12 C13 C14 C15 C16}
VC=${VCHECK:-/verif/bin/vcheck}
git -C $wt checkout -q -- . && git -C $wt clean -fdq
git -C $wt apply $patch || { echo "PATCH-DOES-NOT-APPLY $patch"; exit 3; }
cd /verif
for p in $props; do
  out=$(VERIF_ALT_TREE=$wt $VC $p --tier ${TIER:-quick} 2>&1); rc=$?
  n=$(echo "$out" | grep -c "^VIOLATION")
  echo "$p exit=$rc violations=$n $(echo "$out" | grep -m1 'BUILD-ERROR\|INTERNAL-ERROR' | cut -c1-200)"
done
git -C $wt checkout -q -- . && git -C $wt clean -fdq
