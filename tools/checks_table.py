check("C16",
      technique="exhaustive input-space enumeration (all 2^32 words in thorough) against encoding/binary",
      text="Complete enumeration: thorough runs every one of the 2^32 int32 values (hence every byte quadruple) through BytesFromLowBits / I32FromBytes of the rebuilt repo and compares split, join and round trip with encoding/binary little-endian; quick enumerates the 4*3*2^24 values having one byte pinned to 0x00/0x80/0xff. The property is a finite statement, so enumeration decides it outright.",
      note="Trusts encoding/binary.LittleEndian as the definition of byte i = bits 8i..8i+7 and the Go compiler; sw/lw round trip through the instruction layer is covered by C02.",
      ref="DESIGN.md §2 C16")
