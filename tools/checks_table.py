check("C16",
      technique="exhaustive input-space enumeration (all 2^32 words in thorough) against encoding/binary",
      text="Complete enumeration: thorough runs every one of the 2^32 int32 values (hence every byte quadruple) through BytesFromLowBits / I32FromBytes of the rebuilt repo and compares split, join and round trip with encoding/binary little-endian; quick enumerates the 4*3*2^24 values having one byte pinned to 0x00/0x80/0xff. The property is a finite statement, so enumeration decides it outright.",
      note="Trusts encoding/binary.LittleEndian as the definition of byte i = bits 8i..8i+7 and the Go compiler; sw/lw round trip through the instruction layer is covered by C02.",
      ref="DESIGN.md §2 C16")

check("C13",
      technique="explicit-state BFS over the real LRUCache APIs with a list reference model, state de-duplication, to fix-point for small geometries",
      text="Explicit-state search: every history of PushLine / PushLineWithEvictionWarning / Get / GetCacheLine / GetSubCacheLine / Write / EvictCacheLine over 3-5 lines (small geometries: complete reachable state space; 64B/1KB and 128B/4KB: bounded depth after a capacity-filling prefix, restricted line alphabet) and Put/Get/Find of the generic LRU (capacity 1-3, to fix-point) is executed on the real object and on an MRU-ordered list model; every edge compares return values and the whole line list. Finite-state components, so state enumeration is the natural decision procedure.",
      note="Successors are produced by replaying the shortest history on a fresh object; canonical state = MRU-ordered (base, contents) list (+ announced victim), which determines all future behaviour of both sides. Write only inside a resident line; caller never aliases line contents.",
      ref="DESIGN.md §2 C13")

check("C14",
      technique="explicit-state BFS to fix-point over the real bus/queue/broadcast APIs with a FIFO-with-stamps reference model",
      text="Explicit-state search to a fix-point (complete reachable state space) for BufferedBus with every capacity pair 1..4 x 1..4, SimpleBus, Queue and Broadcast: every interleaving of add (only while the bus reports room) / connect / next-cycle / get / pick / revert / delete-last / clean is executed on the real object and on a FIFO model with availability stamps; each edge compares returned items, the full private state and all observers, and asserts the statement directly on what is handed out (not before cycle c+1, at most once, within capacity, reverted item next).",
      note="Item identity is abstracted to a 1-bit tag in the canonical state (the implementation never inspects items; Pick predicates only look at the tag); absolute cycle numbers are abstracted to 'available now / next cycle'. Private state is read through accessors added by the build overlay.",
      ref="DESIGN.md §2 C14")

check("C15",
      technique="explicit-state BFS over write/read/commit/rollback histories on the real risc.Context and comp.RAT with a tagged write-log reference model",
      text="Explicit-state search to a fix-point: every history of tagged writes (tags in arbitrary arrival order), tag-bounded reads through an instruction's Run, plain reads, Commit/Rollback(tag) (+RATFlush, ring wrap-around) on both the transaction-map and the rename-table path of risc.Context (2 registers x up to 2 uncommitted writes, 1 register x up to 3/4), and every history on comp.RAT with ring 2..4, against a per-register (tag, value) list model; each edge compares returned values and the architectural values of all registers. The statement's own limit (tag-bounded reads/rollback only while writes <= slots) is part of the oracle.",
      note="Values are fresh integers and opaque to the implementation, so the canonical state keeps only the per-register sequence of uncommitted tags. 'Youngest' = highest tag. Known finding KF-C15-1 lists the exact failing histories (all in states with out-of-order arrivals).",
      ref="DESIGN.md §2 C15")

check("C02",
      technique="exhaustive enumeration of operand lattice x register shapes x immediates against an independent RV32IM table",
      text="Input-space enumeration: each of the 45 mnemonics is parsed from text and its Run/MemoryRead/MemoryWrite/declared register sets are compared with an independent uint32-arithmetic RV32IM table for ALL pairs of a boundary lattice (33 values quick, ~300 thorough), all register shapes incl. zero and rd==rs / rs1==rs2 aliases, 14 immediates, all 256 bytes for lb, all 65536 half-words for lh, 6^4 words for lw, 3 pcs for link instructions, with poison flipped in unread registers (dynamic non-interference) and a check that Run changes no register behind its Execution result.",
      note="Exhaustive over the lattice, not over all 2^64 operand pairs (stated in the evidence). The table is the trusted specification. div/rem by zero are owned by C07.",
      ref="DESIGN.md §2 C02")

check("C11",
      technique="exhaustive enumeration of all token strings up to length 6/7 plus all single-edit mutants and metamorphic variants, against an independent line classifier",
      text="Input-space enumeration: every string of <= 6 (quick, 67M strings) / <= 7 (thorough, 1.3G) tokens of a 20-token alphabet (mnemonics, registers, separators, parentheses, decimal and overflowing numbers, colon, hash, newline, tab) and every single-edit mutant / metamorphic variant of 11 well-formed programs is parsed by the rebuilt risc.Parse; no panic is tolerated; for accepted text the instruction count and label map are compared with an independent line classifier and every readable instruction line must decode to the same instruction as its canonical rendering; variants (blank/comment lines, indentation, trailing blanks/comments, mnemonic case) must parse to a result equal to the base program's.",
      note="Strings are over a token alphabet, not arbitrary bytes; the label-line definition (no space, trailing colon) is part of the oracle; meaning of canonical renderings is delegated to C02.",
      ref="DESIGN.md §2 C11")
