check("C16",
      technique="exhaustive input-space enumeration (all 2^32 words in thorough) against encoding/binary",
      text="Complete enumeration: thorough runs every one of the 2^32 int32 values (hence every byte quadruple) through BytesFromLowBits / I32FromBytes of the rebuilt repo and compares split, join and round trip with encoding/binary little-endian; quick enumerates the 4*3*2^24 values having one byte pinned to 0x00/0x80/0xff. The property is a finite statement, so enumeration decides it outright.",
      note="Trusts encoding/binary.LittleEndian as the definition of byte i = bits 8i..8i+7 and the Go compiler; sw/lw round trip through the instruction layer is covered by C02.",
      ref="DESIGN.md §2 C16")

check("C13",
      technique="explicit-state BFS over the real LRUCache APIs with a list reference model, state de-duplication, to fix-point for small geometries",
      text="Explicit-state search: every history of PushLine / PushLineWithEvictionWarning / Get / GetCacheLine / GetSubCacheLine / Write / EvictCacheLine over 3-5 lines (small geometries: complete reachable state space; 64B/1KB and 128B/4KB: bounded depth after a capacity-filling prefix, restricted line alphabet) and Put/Get/Find of the generic LRU (capacity 1-3, to fix-point) is executed on the real object and on an MRU-ordered list model; every edge compares return values and the whole line list. Finite-state components, so state enumeration is the natural decision procedure.",
      note="Successors are produced by replaying the shortest history on a fresh object; canonical state = MRU-ordered (base, contents) list (+ announced victim), which determines all future behaviour of both sides. Write only inside a resident line; caller never aliases line contents.",
      ref="DESIGN.md §2 C13")

check("C14",
      technique="explicit-state BFS to fix-point over the real bus/queue/broadcast APIs with a FIFO-with-stamps reference model",
      text="Explicit-state search to a fix-point (complete reachable state space) for BufferedBus with every capacity pair 1..4 x 1..4, SimpleBus, Queue and Broadcast: every interleaving of add (only while the bus reports room) / connect / next-cycle / get / pick / revert / delete-last / clean is executed on the real object and on a FIFO model with availability stamps; each edge compares returned items, the full private state and all observers, and asserts the statement directly on what is handed out (not before cycle c+1, at most once, within capacity, reverted item next).",
      note="Item identity is abstracted to a 1-bit tag in the canonical state (the implementation never inspects items; Pick predicates only look at the tag); absolute cycle numbers are abstracted to 'available now / next cycle'. Private state is read through accessors added by the build overlay.",
      ref="DESIGN.md §2 C14")

check("C15",
      technique="explicit-state BFS over write/read/commit/rollback histories on the real risc.Context and comp.RAT with a tagged write-log reference model",
      text="Explicit-state search to a fix-point: every history of tagged writes (tags in arbitrary arrival order), tag-bounded reads through an instruction's Run, plain reads, Commit/Rollback(tag) (+RATFlush, ring wrap-around) on both the transaction-map and the rename-table path of risc.Context (2 registers x up to 2 uncommitted writes, 1 register x up to 3/4), and every history on comp.RAT with ring 2..4, against a per-register (tag, value) list model; each edge compares returned values and the architectural values of all registers. The statement's own limit (tag-bounded reads/rollback only while writes <= slots) is part of the oracle.",
      note="Values are fresh integers and opaque to the implementation, so the canonical state keeps only the per-register sequence of uncommitted tags. 'Youngest' = highest tag. Known finding KF-C15-1 lists the exact failing histories (all in states with out-of-order arrivals).",
      ref="DESIGN.md §2 C15")

check("C02",
      technique="exhaustive enumeration of operand lattice x register shapes x immediates against an independent RV32IM table",
      text="Input-space enumeration: each of the 45 mnemonics is parsed from text and its Run/MemoryRead/MemoryWrite/declared register sets are compared with an independent uint32-arithmetic RV32IM table for ALL pairs of a boundary lattice (33 values quick, ~300 thorough), all register shapes incl. zero and rd==rs / rs1==rs2 aliases, 14 immediates, all 256 bytes for lb, all 65536 half-words for lh, 6^4 words for lw, 3 pcs for link instructions, with poison flipped in unread registers (dynamic non-interference) and a check that Run changes no register behind its Execution result.",
      note="Exhaustive over the lattice, not over all 2^64 operand pairs (stated in the evidence). The table is the trusted specification. div/rem by zero are owned by C07.",
      ref="DESIGN.md §2 C02")

check("C11",
      technique="exhaustive enumeration of all token strings up to length 6/7 plus all single-edit mutants and metamorphic variants, against an independent line classifier",
      text="Input-space enumeration: every string of <= 6 (quick, 67M strings) / <= 7 (thorough, 1.3G) tokens of a 20-token alphabet (mnemonics, registers, separators, parentheses, decimal and overflowing numbers, colon, hash, newline, tab) and every single-edit mutant / metamorphic variant of 11 well-formed programs is parsed by the rebuilt risc.Parse; no panic is tolerated; for accepted text the instruction count and label map are compared with an independent line classifier and every readable instruction line must decode to the same instruction as its canonical rendering; variants (blank/comment lines, indentation, trailing blanks/comments, mnemonic case) must parse to a result equal to the base program's.",
      note="Strings are over a token alphabet, not arbitrary bytes; the label-line definition (no space, trailing colon) is part of the oracle; meaning of canonical renderings is delegated to C02.",
      ref="DESIGN.md §2 C11")

PXNOTE = "Runs the real variants rebuilt from /repo with the loop/cycle/map-order instrumentation of the overlay; instruction effects of the reference come from the repo's own InstructionRunner.Run (validated by C02), sequencing and memory are the reference's own. Known findings are matched per exact case (configuration, program, initial state, failure class); see known_findings.json."

check("C01",
      technique="bounded-exhaustive program-space exploration (all programs up to length 2/3 over a 33-template alphabet x 33 configurations) against a sequential reference interpreter",
      text="Bounded exhaustive exploration of the real processors: every program of length <= 2 (quick) / <= 3 (thorough) over the general alphabet and of length 3 / 4 over the core alphabet, closed by an epilogue, x 2 / 4 initial states x all 33 configurations (12 variants, parallelism 1..4) is executed and compared (registers x1..x31, whole memory, no error/panic/hang) with a sequential reference interpreter. The defects this code base can have are shape defects (WAW pair, store in a branch shadow, load after store to a line) that fit in 3-4 instructions, so a complete small scope decides what seven skeleton tests cannot.",
      note=PXNOTE, ref="DESIGN.md §2 C01")
check("C03",
      technique="bounded-exhaustive enumeration of branch shadows (all sequences up to length 2/3 over 13 templates) with a differential nop-shadow oracle on the real pipelines",
      text="Every pre x branch x shadow x post program (4 pre-states, 10 branch/jump/ret forms, every shadow sequence of length 1..2 quick / 1..3 thorough over 13 templates incl. stores, out-of-bounds loads, jal/jalr with link, div by zero, nested branch, ret) is run on MVP-4..8 x parallelism 1..4 and must be indistinguishable (outcome class, registers, memory) from the same program whose shadow is nops, whenever the sequential reference skips the shadow.",
      note=PXNOTE + " Differential oracle: defects that hit the nop twin identically are attributed to C01, not C03.", ref="DESIGN.md §2 C03")
check("C04",
      technique="bounded-exhaustive enumeration of register-reuse sequences (length <= 3/4 full, 4/5 core) x cache pre-states x 30 configurations against the sequential reference",
      text="Every sequence over the 12-template register-pressure alphabet (chains, fans, WAW, WAR, mixed-latency producers via loads that miss/hit) up to length 3 (quick) / 4 (thorough), plus length 4 / 5 over an 8-template core, x {cold, warm} caches on MVP-4..8 x parallelism 1..4; oracle: every register ends with the value of its last writer in program order and late readers (stores) saw program-order values. Dispatch interleavings are those the real control units produce; map-order schedules are explored by C08 on the same machinery.",
      note=PXNOTE, ref="DESIGN.md §2 C04")
check("C05",
      technique="bounded-exhaustive enumeration of load/store sequences incl. eviction sweeps x 31 configurations against a flat-memory reference",
      text="Every sequence of length <= 3 (quick) / <= 4 (thorough) over an 18-template memory alphabet (byte/half/word at line-relative offsets 0,2,4,60,62,63 of three lines) plus 17/33-line read/write sweep macros (more lines than L1 / L3 ways) with one access before and after, on MVP-3..8 x parallelism 1..4; oracle: all loaded values (copied to result slots) and the whole final memory image equal a flat-memory reference, i.e. nothing is left behind in a cache.",
      note=PXNOTE, ref="DESIGN.md §2 C05")
check("C06",
      technique="exhaustive enumeration of timed request schedules on the real cache controllers + MSI directory (rig), invariants checked after every controller cycle; same invariant monitor at every cycle of whole-pipeline runs",
      text="Protocol rig: for MVP-7.0/7.1/8 every schedule of 2 read/write requests from 2-3 cores on 2 lines at every issue offset (0..340 quick / 0..700 thorough), 3 requests on a phase-boundary grid, pre-filled L1 (capacity eviction) and request/flush/request schedules is driven into the real controllers in CPU.Run's order; after every cycle the statement's invariants (single writer, Shared == next level, residency <=> state outside transfers, no duplicate/unaligned lines, non-negative lock counters) are evaluated on a snapshot and completed reads are compared with a sequentially consistent memory. The same invariant function runs at every cycle boundary of whole-pipeline runs of all load/store/branch programs up to length 3/4 and of sweep programs on 1..4 cores.",
      note="Snapshots read private fields through files added by the build overlay (a rename breaks the build: BUILD-ERROR, not a violation). The controllers' coroutine closures cannot be hashed, so the enumeration is stateless (schedules, not states). Flush events follow the pipeline's own discipline.", ref="DESIGN.md §2 C06")
check("C07",
      technique="bounded-exhaustive program-space exploration with a cycle/tick budget turning hangs into verdicts, incl. all error-reaching programs of the alphabet",
      text="The C01 general program set plus every prefix (length <= 1 quick / <= 2 thorough) followed by div/rem by zero or a jump to an undefined label, on all 33 configurations: the run must return (no Go panic, no deadlock of the forwarding channels, cycle boundaries within 309*(8n+120) for n executed instructions, enforced by the injected cycle budget) and return an error value exactly when the reference reaches a defined error.",
      note=PXNOTE + " The cycle bound is the property's own bound, so an abort is a violation, never merely 'slow'.", ref="DESIGN.md §2 C07")
check("C08",
      technique="deviation-bounded exploration of map-iteration orders on the real variants, exhaustive schedule exploration of the iterator goroutines under a cooperative scheduler, history and two-machine interleaving enumeration",
      text="(i) every execution deviating at <= 1 (quick) / <= 2 (thorough) map-range choice points from the canonical order, for 57 + 64/320 target programs x configurations, must be bit-identical (cycles, registers, memory) to the default; (ii) every interleaving (unbounded preemptions) of comp.Queue.Iterator / ds.StableMapIteration producers with removing / abandoning / pushing consumers delivers the FIFO / sorted sequence without deadlock; (iii) Y after X, Y on a machine built while X's is alive and Y twice on one parsed program equal Y alone in a fresh OS process for all ordered pairs of 11/31 programs x 33 configurations; (iv) two machines interleaved at cycle boundaries with <= 1 preemption (separate and shared parsed programs) each equal their solo run.",
      note="Every `range` over a map is rewritten by the instrumenter to iterate a canonical order permuted by a recorded choice; goroutine/channel operations of the two iterators are emulated by the cooperative scheduler (hand-rolled, verifrt). The Go memory model itself is not explored.", ref="DESIGN.md §2 C08")
check("C09",
      technique="bounded-exhaustive enumeration of program tails before ret / end of program x 30 configurations against the sequential reference",
      text="body ; tail ; EXIT [; junk] with every tail of length 1..2 (quick) / 1..3 (thorough) over 10 templates (missing/hitting loads, stores to cached/uncached lines, dependent chains, load-use), EXIT in {ret, falling off the end}, junk after ret in 4 forms, on MVP-4..8 x parallelism 1..4; oracle: registers and memory equal the sequential reference: everything older than the exit has taken effect, nothing younger has.",
      note=PXNOTE, ref="DESIGN.md §2 C09")
check("C10",
      technique="bounded-exhaustive enumeration of load/store sequences with independent address registers x cache pre-states x 30 configurations against the sequential reference",
      text="Every sequence of length <= 3 (quick) / <= 4 (thorough) over 11 templates (stores/loads to the same byte, word and line through two independent base registers, another line, an ALU op, nop) x {cold, warm} on MVP-6.0..8 x parallelism 1..4 and MVP-4/5; so every store->load, load->store and store->store pair at every distance within the bound occurs with no register dependence; oracle: loaded values and final memory equal the reference.",
      note=PXNOTE, ref="DESIGN.md §2 C10")
check("C12",
      technique="bounded-exhaustive program-space exploration checking an analytic latency model (MVP-1 exact) and relational cycle properties across all configurations and initial-state pairs",
      text="For every program of the C01 general set x 6 initial states x 33 configurations: MVP-1's returned cycles equal the latency-table model computed from the reference trace; MVP-2 <= MVP-1; cycles > 0 and >= ceil(n/width); and for every pair of initial states with identical reference pc and address sequences the cycle counts are equal (value independence).",
      note=PXNOTE + " Only executions with a correct architectural result take part, so C01 findings do not resurface here.", ref="DESIGN.md §2 C12")
