check("C16",
      technique="exhaustive input-space enumeration (all 2^32 words in thorough) against encoding/binary",
      text="Complete enumeration: thorough runs every one of the 2^32 int32 values (hence every byte quadruple) through BytesFromLowBits / I32FromBytes of the rebuilt repo and compares split, join and round trip with encoding/binary little-endian; quick enumerates the 4*3*2^24 values having one byte pinned to 0x00/0x80/0xff. The property is a finite statement, so enumeration decides it outright.",
      note="Trusts encoding/binary.LittleEndian as the definition of byte i = bits 8i..8i+7 and the Go compiler; sw/lw round trip through the instruction layer is covered by C02.",
      ref="DESIGN.md §2 C16")

check("C13",
      technique="explicit-state BFS over the real LRUCache APIs with a list reference model, state de-duplication, to fix-point for small geometries",
      text="Explicit-state search: every history of PushLine / PushLineWithEvictionWarning / Get / GetCacheLine / GetSubCacheLine / Write / EvictCacheLine over 3-5 lines (small geometries: complete reachable state space; 64B/1KB and 128B/4KB: bounded depth after a capacity-filling prefix, restricted line alphabet) and Put/Get/Find of the generic LRU (capacity 1-3, to fix-point) is executed on the real object and on an MRU-ordered list model; every edge compares return values and the whole line list. Finite-state components, so state enumeration is the natural decision procedure.",
      note="Successors are produced by replaying the shortest history on a fresh object; canonical state = MRU-ordered (base, contents) list (+ announced victim), which determines all future behaviour of both sides. Write only inside a resident line; caller never aliases line contents.",
      ref="DESIGN.md §2 C13")
