#!/bin/bash
# (author only) the prescribed way: apply a seeded change to /repo itself, run the named checks, undo it straight afterwards.
# usage: tools/test_seeded_on_repo.sh <patch.diff> <prop> [<prop>...]   prints "<prop> exit=<rc> violations=<n>"
patch=$1; shift
trap 'git -C /repo checkout -q -- . ; git -C /repo clean -fdq' EXIT
git -C /repo diff --quiet || { echo "REPO-NOT-CLEAN"; exit 3; }
git -C /repo apply $patch || { echo "PATCH-DOES-NOT-APPLY"; exit 3; }
cd /verif
for p in "$@"; do
  out=$(VERIF_OUT_SCRATCH=1 bin/vcheck $p --tier ${TIER:-quick} 2>&1); rc=$?
  echo "$p exit=$rc violations=$(echo "$out" | grep -c '^VIOLATION') $(echo "$out" | grep -m1 'BUILD-ERROR\|INTERNAL-ERROR' | cut -c1-160)"
done
