//go:build verif

package comp

// Read-only accessors for private state, added through the build overlay by
// /verif (never part of /repo). They only read fields.

func (b *BufferedBus[T]) VerifState() (queue []T, buffer []T, availableFrom []int) {
	queue = append(queue, b.queue...)
	for _, e := range b.buffer {
		buffer = append(buffer, e.t)
		availableFrom = append(availableFrom, e.availableFromCycle)
	}
	return
}

func (b *SimpleBus[T]) VerifState() (pending T, hasPending bool, current T, hasCurrent bool) {
	return b.pending.t, b.pending.exists, b.current.t, b.current.exists
}

func (s *Sem) VerifCounts() (read, write int) { return s.read, s.write }

func (b *Broadcast[T]) VerifState() (data [][]T, read [][]bool) {
	for _, l := range b.listeners {
		var d []T
		var r []bool
		for _, e := range l {
			d = append(d, e.data)
			r = append(r, e.read)
		}
		data = append(data, d)
		read = append(read, r)
	}
	return
}

// VerifSlots returns, for key k, the ring contents, the index of the youngest
// entry and whether the key was ever written.
func (r *RAT[K, V]) VerifSlots(k K) (values []V, idx int, exists bool) {
	idx, exists = r.idx[k]
	values = append(values, r.values[k]...)
	return
}
