//go:build verif

package mvp7_0

import (
	"sort"

	"github.com/teivah/majorana/proc/comp"
	"github.com/teivah/majorana/risc"
	"github.com/teivah/majorana/verifrt"
)

// Snapshot exporter and pipeline-less rig, added through the build overlay by
// /verif. They only read private fields or call the package's own constructors.

func verifSnapshot(ctx *risc.Context, m *msi, ccs []*cacheController) verifrt.MSISnap {
	s := verifrt.MSISnap{Cores: len(ccs), LineSize: l1DCacheLineSize, Memory: ctx.Memory}
	for e, st := range m.states {
		s.States = append(s.States, verifrt.MSIState{Core: e.id, Line: int32(e.alignedAddr), State: st})
	}
	sort.Slice(s.States, func(i, j int) bool {
		if s.States[i].Line != s.States[j].Line {
			return s.States[i].Line < s.States[j].Line
		}
		return s.States[i].Core < s.States[j].Core
	})
	for c := range m.commands {
		s.Commands = append(s.Commands, verifrt.MSICommand{Core: c.id, Line: int32(c.alignedAddr), Request: c.request})
	}
	sort.Slice(s.Commands, func(i, j int) bool {
		a, b := s.Commands[i], s.Commands[j]
		if a.Line != b.Line {
			return a.Line < b.Line
		}
		if a.Core != b.Core {
			return a.Core < b.Core
		}
		return a.Request < b.Request
	})
	for a, sem := range m.pendings {
		r, w := sem.VerifCounts()
		s.Sems = append(s.Sems, verifrt.MSISem{Line: int32(a), Read: r, Write: w})
	}
	sort.Slice(s.Sems, func(i, j int) bool { return s.Sems[i].Line < s.Sems[j].Line })
	for _, cc := range ccs {
		var held []int32
		for a := range cc.rlockSems {
			held = append(held, int32(a))
		}
		for a := range cc.lockSems {
			held = append(held, int32(a))
		}
		sort.Slice(held, func(i, j int) bool { return held[i] < held[j] })
		s.Held = append(s.Held, held)
		var ls []verifrt.MSILine
		for _, l := range cc.l1d.Lines() {
			ls = append(ls, verifrt.MSILine{Base: int32(l.Boundary[0]), Data: l.Data})
		}
		s.L1 = append(s.L1, ls)
	}

	return s
}

func (m *CPU) VerifSnapshot() verifrt.MSISnap {
	return verifSnapshot(m.ctx, m.msi, m.cacheControllers)
}

// VerifRig is the cache controllers + MSI directory (+ shared L3) over a
// memory, without a pipeline.
type VerifRig struct {
	ctx *risc.Context
	mmu *memoryManagementUnit
	msi *msi
	ccs []*cacheController
}

func NewVerifRig(cores, memBytes int) *VerifRig {
	ctx := risc.NewContext(false, memBytes, true)
	mmu := newMemoryManagementUnit(ctx)
	m := newMSI()
	r := &VerifRig{ctx: ctx, mmu: mmu, msi: m}

	for i := 0; i < cores; i++ {
		r.ccs = append(r.ccs, newCacheController(i, ctx, mmu, m))
	}
	return r
}

func (r *VerifRig) Memory() []int8 { return r.ctx.Memory }

func (r *VerifRig) Snoop(core int) { r.ccs[core].snoop.Cycle(struct{}{}) }

func (r *VerifRig) Read(core int, cycle int, addrs []int32) ([]int8, bool) {
	resp := r.ccs[core].read.Cycle(ccReadReq{cycle, addrs})
	return resp.data, resp.done
}

func (r *VerifRig) Write(core int, cycle int, addrs []int32, data []int8) bool {
	return r.ccs[core].write.Cycle(ccWriteReq{cycle, addrs, data}).done
}

// Flush is what the pipeline's flush does to one core's controller.
func (r *VerifRig) Flush(core int) { r.ccs[core].flush() }

func (r *VerifRig) Idle(core int) bool { return r.ccs[core].isEmpty() }

func (r *VerifRig) Snapshot() verifrt.MSISnap { return verifSnapshot(r.ctx, r.msi, r.ccs) }

var _ = comp.AlignedAddress(0)
