//go:build verif

package cache

// VerifState returns the recency order (least recently used first) and a copy
// of the key/value map. Added through the build overlay by /verif.
func (l *LRUCache[K, V]) VerifState() (order []K, values map[K]V) {
	order = append(order, l.order...)
	values = make(map[K]V, len(l.cache))
	for k, v := range l.cache {
		values[k] = v
	}
	return
}
