//go:build verif

package risc

// Read-only accessors added through the build overlay by /verif.

// VerifArch returns the architectural (committed) value of reg: the committed
// rename table when renaming is on, the register file otherwise.
func (ctx *Context) VerifArch(reg RegisterType) int32 {
	if ctx.rat {
		v, _ := ctx.committedRAT.Read(reg)
		return v
	}
	return ctx.Registers[reg]
}

func (ctx *Context) VerifRAT() bool { return ctx.rat }

const VerifRATLength = ratLength
