package main

import (
	"encoding/json"
	"fmt"
	"os"
	"strings"
	"time"
)

// pxSuite describes one program-space enumeration: which programs, which
// initial states, which configurations, and which outcomes violate the
// property.

type pxProg struct {
	Text string
	Tag  string // generator-specific note (e.g. skeleton name)
}

type pxSuite struct {
	Configs    []*pxConfig
	Inits      []*pxInit
	InitsFor   func(p pxProg) []*pxInit // optional: per-program initial states (overrides Inits)
	Programs   func(tier string, emit func(p pxProg))
	Violates   func(class string) bool                                                              // which outcome classes violate this property
	Nontrivial func(ref *refResult, p pxProg) bool                                                  // rule for distinct_nontrivial
	WantErrors bool                                                                                 // keep programs whose reference reaches a defined error
	OnOutcome  func(c *RunCtx, cfg *pxConfig, p pxProg, in *pxInit, ref *refResult, out *pxOutcome) // extra verdicts (may call c.Fail)
	Rule       string
	Deadline   func(tier string) time.Duration // 0 = none
}

func cfgsWhere(pred func(c *pxConfig) bool) []*pxConfig {
	var out []*pxConfig
	for i := range pxConfigs {
		if pred(&pxConfigs[i]) {
			out = append(out, &pxConfigs[i])
		}
	}
	return out
}

func initsByID(ids ...string) []*pxInit {
	var out []*pxInit
	for _, id := range ids {
		out = append(out, pxInitByID(id))
	}
	return out
}

func groupOf(cfg *pxConfig, class string) string { return cfg.Fam + "/" + class }

func pxRunSuite(c *RunCtx, s *pxSuite) {
	start := time.Now()
	var deadline time.Time
	if s.Deadline != nil {
		if d := s.Deadline(c.Tier); d > 0 {
			deadline = start.Add(d)
		}
	}
	c.Sum.Rule = s.Rule
	i := -1
	progs := 0
	stopped := false
	debug := os.Getenv("VERIF_DEBUG") != ""
	if fams := os.Getenv("VERIF_PX_FAMS"); fams != "" { // debugging aid only: restrict the configurations
		var keep []*pxConfig
		for _, cfg := range s.Configs {
			for _, f := range strings.Split(fams, ",") {
				if cfg.Fam == f || cfg.Name == f {
					keep = append(keep, cfg)
				}
			}
		}
		s.Configs = keep
		c.Cap("VERIF_PX_FAMS restricts the configurations (debugging run)")
	}
	s.Programs(c.Tier, func(p pxProg) {
		i++
		if stopped || !c.Mine(i) {
			return
		}
		if !deadline.IsZero() && time.Now().After(deadline) {
			stopped = true
			c.Cap(fmt.Sprintf("internal deadline reached after %d programs of this shard (program index %d)", progs, i))
			return
		}
		progs++
		nontrivial := false
		inits := s.Inits
		if s.InitsFor != nil {
			inits = s.InitsFor(p)
		}
		for _, in := range inits {
			ref := refRun(p.Text, in)
			if !ref.WellFormed {
				c.Sum.Outcomes["skipped-ill-formed"]++
				continue
			}
			if ref.Err != "" && !s.WantErrors {
				c.Sum.Outcomes["skipped-defined-error"]++
				continue
			}
			if s.Nontrivial == nil || s.Nontrivial(&ref, p) {
				nontrivial = true
			}
			for _, cfg := range s.Configs {
				out := pxExec(cfg, p.Text, in, &ref, false, nil, nil)
				c.Sum.Evaluations++
				c.Sum.States++
				c.Sum.Validated++
				c.Sum.Transitions += int64(ref.Steps)
				c.Sum.Outcomes[out.Class]++
				c.AddExtra("simulated_cycle_boundaries", float64(out.VCycle))
				if out.Class == "ok" && ref.Steps > 0 {
					c.MaxExtra("max_cycles_per_bound", float64(out.Cycles)/float64(cycleBound(ref.Steps)))
				}
				if s.Violates(out.Class) {
					if debug {
						fmt.Fprintf(os.Stderr, "FAIL %s %s %q %s: %s\n", cfg.Name, in.ID, p.Text, out.Class, out.Detail)
					}
					c.Fail(groupOf(cfg, out.Class), out.Class, pxCase{Cfg: cfg.Name, Prog: p.Text, Init: in.ID}, out.Detail)
				}
				if s.OnOutcome != nil {
					s.OnOutcome(c, cfg, p, in, &ref, &out)
				}
			}
		}
		if nontrivial {
			c.Sum.Nontrivial++
		}
		if progs%97 == 1 {
			c.Sample(map[string]any{"program": strings.Split(strings.TrimSpace(p.Text), "\n"), "configs": len(s.Configs), "inits": len(s.Inits)})
		}
	})
	c.AddExtra("programs", float64(progs))
	c.Assume("programs are kept only when the sequential reference execution is well formed (terminates within 2000 steps, naturally aligned in-bounds accesses, jumps to instruction addresses, < 250 instructions)")
	c.Assume("per-instruction effects of the reference come from the repository's own InstructionRunner.Run (checked against RV32IM by C02); sequencing, memory and termination are the reference's own")
}

// pxReplay re-executes one recorded case.
func pxReplay(s *pxSuite) func(string, json.RawMessage) (string, string) {
	return func(prop string, raw json.RawMessage) (string, string) {
		var k pxCase
		if err := json.Unmarshal(raw, &k); err != nil {
			return "ok", err.Error()
		}
		cfg, in := pxConfigByName(k.Cfg), pxInitByID(k.Init)
		if cfg == nil || in == nil {
			return "ok", "unknown configuration or initial state"
		}
		ref := refRun(k.Prog, in)
		if !ref.WellFormed {
			return "ok", "reference execution is not well formed: " + ref.Why
		}
		out := pxExec(cfg, k.Prog, in, &ref, len(k.Choices) > 0, k.Choices, nil)
		if s.Violates(out.Class) {
			return out.Class, out.Detail
		}
		return "ok", out.Class + " " + out.Detail
	}
}
