package main

import (
	"fmt"

	"github.com/teivah/majorana/proc/comp"
)

// C14 — pipeline buses deliver each item once, in order, a cycle later, within
// capacity. SX over BufferedBus (all capacities 1..4 x 1..4, to fix-point),
// SimpleBus, Queue and Broadcast, each against a FIFO-with-availability-stamp
// reference model, plus direct assertions of the statement on what the
// implementation hands out (visibility, exactly-once, occupancy).

type busItem struct {
	ID  int
	Tag int
}

type stamped struct {
	it    busItem
	avail int
}

type bufBusSys struct {
	impl       *comp.BufferedBus[busItem]
	qLen, bLen int
	now        int
	nextID     int
	out        []busItem
	in         []stamped
	addedAt    map[int]int
	delivered  map[int]bool
	lastTaken  *busItem     // item the consumer took in this cycle and may still hand back
	reverted   map[int]bool // items handed back and not yet delivered again
}

func newBufBusSys(qLen, bLen int) *bufBusSys {
	return &bufBusSys{impl: comp.NewBufferedBus[busItem](qLen, bLen), qLen: qLen, bLen: bLen, addedAt: map[int]int{}, delivered: map[int]bool{}, reverted: map[int]bool{}}
}

func (s *bufBusSys) Ops() []sxOp {
	ops := []sxOp{{"Connect", nil}, {"NextCycle", nil}, {"Get", nil}, {"Pick", []int{1}}, {"Pick", []int{0}},
		{"GetRevert", nil}, {"PickRevert", []int{1}}, {"DeleteLast", nil}, {"Clean", nil}}
	if s.lastTaken != nil {
		// the consumer hands back what it took earlier in this cycle (other operations, e.g. a
		// Connect that refills the queue, may have happened in between)
		ops = append(ops, sxOp{"RevertLastTaken", nil})
	}
	if len(s.in) < s.bLen { // producers add only while the bus reports room
		ops = append(ops, sxOp{"Add", []int{0}}, sxOp{"Add", []int{1}})
	}
	return ops
}

func (s *bufBusSys) take(it busItem, ok bool, wantIt busItem, wantOK bool, what string) string {
	if ok != wantOK || (ok && it != wantIt) {
		return fmt.Sprintf("%s at cycle %d returned (%v,%v), FIFO model expects (%v,%v)", what, s.now, it, ok, wantIt, wantOK)
	}
	if ok {
		if at, known := s.addedAt[it.ID]; !known {
			return fmt.Sprintf("%s delivered %v which was never added", what, it)
		} else if at >= s.now {
			return fmt.Sprintf("%s delivered %v in cycle %d although it was added in cycle %d (visible before c+1)", what, it, s.now, at)
		}
		if s.delivered[it.ID] {
			return fmt.Sprintf("%s delivered %v a second time", what, it)
		}
		s.delivered[it.ID] = true
		delete(s.reverted, it.ID)
		cp := it
		s.lastTaken = &cp
	}
	return ""
}

// revert hands item it back; the statement fixes the delivery order, not where the item waits: accept
// the head of the output queue, or the head of the input buffer when nothing is queued in front of it.
func (s *bufBusSys) revert(it busItem) string {
	s.impl.Revert(it, s.now)
	delete(s.delivered, it.ID)
	s.lastTaken = nil
	q, b, _ := s.impl.VerifState()
	switch {
	case len(q) > 0 && q[0] == it:
		s.out = append([]busItem{it}, s.out...)
	case len(q) == 0 && len(s.out) == 0 && len(b) > 0 && b[0] == it:
		s.in = append([]stamped{{it, s.now}}, s.in...)
	default:
		return fmt.Sprintf("reverted item %v is not the next one delivered: output queue %v, input buffer %v", it, q, b)
	}
	s.reverted[it.ID] = true
	return ""
}

func (s *bufBusSys) mpick(tag int) (busItem, bool) {
	for i, it := range s.out {
		if it.Tag == tag {
			s.out = append(append([]busItem{}, s.out[:i]...), s.out[i+1:]...)
			return it, true
		}
	}
	return busItem{}, false
}

func (s *bufBusSys) Apply(op sxOp) string {
	switch op.Name {
	case "Add":
		if !s.impl.CanAdd() {
			return fmt.Sprintf("CanAdd()=false with %d of %d input slots used", len(s.in), s.bLen)
		}
		it := busItem{s.nextID, op.Args[0]}
		s.nextID++
		s.impl.Add(it, s.now)
		s.in = append(s.in, stamped{it, s.now + 1})
		s.addedAt[it.ID] = s.now
	case "Connect":
		s.impl.Connect(s.now)
		for len(s.in) > 0 && len(s.out) < s.qLen && s.in[0].avail <= s.now {
			s.out = append(s.out, s.in[0].it)
			s.in = s.in[1:]
		}
	case "NextCycle":
		s.now++
		s.lastTaken = nil // a new cycle: the consumer no longer holds the item
	case "Get":
		it, ok := s.impl.Get()
		var w busItem
		wok := len(s.out) > 0
		if wok {
			w = s.out[0]
			s.out = s.out[1:]
		}
		if m := s.take(it, ok, w, wok, "Get"); m != "" {
			return m
		}
	case "Pick":
		tag := op.Args[0]
		it, ok := s.impl.Pick(func(b busItem) bool { return b.Tag == tag })
		w, wok := s.mpick(tag)
		if m := s.take(it, ok, w, wok, fmt.Sprintf("Pick(tag=%d)", tag)); m != "" {
			return m
		}
	case "GetRevert", "PickRevert":
		var it busItem
		var ok bool
		var w busItem
		var wok bool
		if op.Name == "GetRevert" {
			it, ok = s.impl.Get()
			wok = len(s.out) > 0
			if wok {
				w = s.out[0]
				s.out = s.out[1:]
			}
		} else {
			tag := op.Args[0]
			it, ok = s.impl.Pick(func(b busItem) bool { return b.Tag == tag })
			w, wok = s.mpick(tag)
		}
		if m := s.take(it, ok, w, wok, op.Name); m != "" {
			return m
		}
		if ok {
			// the consumer hands the item back straight away: it must be the next one delivered
			if m := s.revert(it); m != "" {
				return m
			}
		}
	case "RevertLastTaken":
		if m := s.revert(*s.lastTaken); m != "" {
			return m
		}
	case "DeleteLast":
		s.impl.DeleteLast()
		if len(s.in) > 0 {
			s.in = s.in[:len(s.in)-1]
		}
	case "Clean":
		s.impl.Clean()
		s.in, s.out = nil, nil
		s.lastTaken = nil
		if !s.impl.IsEmpty() {
			return "Clean left items on the bus"
		}
	}
	return s.compare()
}

func (s *bufBusSys) compare() string {
	q, b, av := s.impl.VerifState()
	if len(q) != len(s.out) {
		return fmt.Sprintf("output queue %v, model %v", q, s.out)
	}
	for i := range q {
		if q[i] != s.out[i] {
			return fmt.Sprintf("output queue %v, model %v (a reverted item must be the next one delivered; order is FIFO otherwise)", q, s.out)
		}
	}
	if len(b) != len(s.in) {
		return fmt.Sprintf("input buffer %v, model %v", b, s.in)
	}
	for i := range b {
		if b[i] != s.in[i].it || (av[i] > s.now) != (s.in[i].avail > s.now) {
			return fmt.Sprintf("input buffer %v avail %v at cycle %d, model %v", b, av, s.now, s.in)
		}
	}
	// producers' adds never exceed the capacities; an item the consumer handed back is not a producer's add
	extraQ, extraB := 0, 0
	for _, it := range q {
		if s.reverted[it.ID] {
			extraQ++
		}
	}
	for _, it := range b {
		if s.reverted[it.ID] {
			extraB++
		}
	}
	if len(q) > s.qLen+extraQ || len(b) > s.bLen+extraB {
		return fmt.Sprintf("occupancy %d/%d exceeds capacities %d/%d", len(q), len(b), s.qLen, s.bLen)
	}
	if s.impl.PendingRead() != len(s.out) || s.impl.CanGet() != (len(s.out) > 0) ||
		s.impl.RemainingToAdd() != s.bLen-len(s.in) || s.impl.CanAdd() != (len(s.in) < s.bLen) ||
		s.impl.IsEmpty() != (len(s.in)+len(s.out) == 0) || s.impl.InLength() != s.qLen || s.impl.OutLength() != s.bLen {
		return fmt.Sprintf("observers disagree: PendingRead=%d CanGet=%v RemainingToAdd=%d CanAdd=%v IsEmpty=%v, model out=%d in=%d",
			s.impl.PendingRead(), s.impl.CanGet(), s.impl.RemainingToAdd(), s.impl.CanAdd(), s.impl.IsEmpty(), len(s.out), len(s.in))
	}
	want := false
	for _, it := range s.out {
		if it.Tag == 1 {
			want = true
		}
	}
	if s.impl.Exists(func(b busItem) bool { return b.Tag == 1 }) != want {
		return "Exists(tag=1) disagrees with the model"
	}
	return ""
}

func (s *bufBusSys) Canon() string {
	out := "q:"
	if s.lastTaken != nil {
		out = fmt.Sprintf("taken%d q:", s.lastTaken.Tag)
	}
	for _, it := range s.out {
		out += fmt.Sprint(it.Tag)
		if s.reverted[it.ID] {
			out += "r"
		}
	}
	out += " b:"
	for _, e := range s.in {
		r := 0
		if e.avail > s.now {
			r = 1
		}
		out += fmt.Sprintf("%d@%d,", e.it.Tag, r)
		if s.reverted[e.it.ID] {
			out += "r,"
		}
	}
	return out
}

// ---- SimpleBus

type simpleBusSys struct {
	impl             comp.SimpleBus[busItem]
	nextID           int
	pending, current *busItem
	gets             int
	addedAtGet       map[int]int
}

func (s *simpleBusSys) Ops() []sxOp {
	ops := []sxOp{{"Get", nil}, {"Flush", nil}, {"Clean", nil}}
	if s.pending == nil {
		ops = append(ops, sxOp{"Add", []int{0}}, sxOp{"Add", []int{1}})
	}
	return ops
}

func (s *simpleBusSys) Apply(op sxOp) string {
	switch op.Name {
	case "Add":
		if !s.impl.CanAdd() {
			return "CanAdd()=false although no item is pending"
		}
		it := busItem{s.nextID, op.Args[0]}
		s.nextID++
		s.impl.Add(it)
		s.pending = &it
		s.addedAtGet[it.ID] = s.gets
	case "Get":
		it, ok := s.impl.Get()
		s.gets++
		if (s.current != nil) != ok || (ok && it != *s.current) {
			return fmt.Sprintf("Get returned (%v,%v), model current=%v", it, ok, s.current)
		}
		if ok && s.gets-s.addedAtGet[it.ID] < 2 {
			return fmt.Sprintf("Get delivered %v in the cycle it was added", it)
		}
		s.current, s.pending = s.pending, nil
	case "Flush":
		s.impl.Flush()
		s.current, s.pending = nil, nil
	case "Clean":
		s.impl.Clean()
		s.current, s.pending = nil, nil
	}
	p, hp, c, hc := s.impl.VerifState()
	if hp != (s.pending != nil) || hc != (s.current != nil) || (hp && p != *s.pending) || (hc && c != *s.current) {
		return fmt.Sprintf("state pending=(%v,%v) current=(%v,%v), model pending=%v current=%v", p, hp, c, hc, s.pending, s.current)
	}
	if s.impl.IsEmpty() != (s.pending == nil && s.current == nil) || s.impl.CanAdd() != (s.pending == nil) {
		return "IsEmpty/CanAdd disagree with the model"
	}
	return ""
}

func (s *simpleBusSys) Canon() string {
	f := func(p *busItem) string {
		if p == nil {
			return "-"
		}
		return fmt.Sprint(p.Tag)
	}
	return f(s.pending) + f(s.current)
}

// ---- Queue

type queueSys struct {
	impl   *comp.Queue[busItem]
	length int
	model  []busItem
	nextID int
	maxLen int
}

func (s *queueSys) Ops() []sxOp {
	var ops []sxOp
	if len(s.model) < s.maxLen {
		ops = append(ops, sxOp{"Push", []int{0}}, sxOp{"Push", []int{1}})
	}
	for mask := 0; mask < 1<<len(s.model); mask++ {
		ops = append(ops, sxOp{"IterateRemove", []int{mask}})
	}
	for k := 0; k < len(s.model); k++ {
		ops = append(ops, sxOp{"IterateBreakAfterRemoving", []int{k}})
	}
	return ops
}

func (s *queueSys) Apply(op sxOp) string {
	switch op.Name {
	case "Push":
		it := busItem{s.nextID, op.Args[0]}
		s.nextID++
		s.impl.Push(it)
		s.model = append(s.model, it)
	case "IterateRemove":
		mask := op.Args[0]
		var got []busItem
		i := 0
		for e := range s.impl.Iterator() {
			got = append(got, s.impl.Value(e))
			if mask&(1<<i) != 0 {
				s.impl.Remove(e)
			}
			i++
		}
		if fmt.Sprint(got) != fmt.Sprint(s.model) {
			return fmt.Sprintf("iteration delivered %v, queue holds %v (FIFO)", got, s.model)
		}
		var keep []busItem
		for j, it := range s.model {
			if mask&(1<<j) == 0 {
				keep = append(keep, it)
			}
		}
		s.model = keep
	case "IterateBreakAfterRemoving":
		k := op.Args[0]
		i := 0
		for e := range s.impl.Iterator() {
			if s.impl.Value(e) != s.model[i] {
				return fmt.Sprintf("iteration element %d is %v, want %v", i, s.impl.Value(e), s.model[i])
			}
			if i == k {
				s.impl.Remove(e)
				break
			}
			i++
		}
		s.model = append(append([]busItem{}, s.model[:k]...), s.model[k+1:]...)
	}
	// complete state comparison on every edge: a full, non-destructive iteration
	var content []busItem
	for e := range s.impl.Iterator() {
		content = append(content, s.impl.Value(e))
	}
	if fmt.Sprint(content) != fmt.Sprint(s.model) {
		return fmt.Sprintf("after %s the queue holds %v, model %v", op, content, s.model)
	}
	if s.impl.Length() != len(s.model) || s.impl.IsFull() != (len(s.model) >= s.length) {
		return fmt.Sprintf("Length=%d IsFull=%v, model len %d capacity %d", s.impl.Length(), s.impl.IsFull(), len(s.model), s.length)
	}
	return ""
}

func (s *queueSys) Canon() string {
	out := ""
	for _, it := range s.model {
		out += fmt.Sprint(it.Tag)
	}
	return out
}

// ---- Broadcast

type bevent struct {
	id   int
	read bool
}

type broadcastSys struct {
	impl   *comp.Broadcast[int]
	n      int
	model  [][]bevent
	nextID int
}

func (s *broadcastSys) Ops() []sxOp {
	var ops []sxOp
	room := true
	for _, l := range s.model {
		if len(l) >= 3 {
			room = false
		}
	}
	if room {
		ops = append(ops, sxOp{"Notify", nil})
	}
	for l := 0; l < s.n; l++ {
		unread := 0
		for _, e := range s.model[l] {
			if !e.read {
				unread++
			}
		}
		for mask := 0; mask < 1<<unread; mask++ {
			ops = append(ops, sxOp{"ReadCommit", []int{l, mask}})
		}
	}
	return ops
}

func (s *broadcastSys) Apply(op sxOp) string {
	switch op.Name {
	case "Notify":
		s.impl.Notify(s.nextID)
		for l := range s.model {
			s.model[l] = append(s.model[l], bevent{s.nextID, false})
		}
		s.nextID++
	case "ReadCommit":
		l, mask := op.Args[0], op.Args[1]
		evs := s.impl.Read(l)
		var keep []bevent
		for _, e := range s.model[l] {
			if !e.read {
				keep = append(keep, e)
			}
		}
		s.model[l] = keep
		if len(evs) != len(keep) {
			return fmt.Sprintf("listener %d read %d events, model has %d undelivered", l, len(evs), len(keep))
		}
		for i, e := range evs {
			if e.Data != keep[i].id {
				return fmt.Sprintf("listener %d event %d is %d, want %d (order of notification)", l, i, e.Data, keep[i].id)
			}
			if mask&(1<<i) != 0 {
				e.Commit()
				s.model[l][i].read = true
			}
		}
	}
	data, read := s.impl.VerifState()
	for l := range s.model {
		if len(data[l]) != len(s.model[l]) {
			return fmt.Sprintf("listener %d holds %v, model %v", l, data[l], s.model[l])
		}
		for i, e := range s.model[l] {
			if data[l][i] != e.id || read[l][i] != e.read {
				return fmt.Sprintf("listener %d holds %v/%v, model %v", l, data[l], read[l], s.model[l])
			}
		}
	}
	return ""
}

func (s *broadcastSys) Canon() string {
	out := ""
	for _, l := range s.model {
		for _, e := range l {
			if e.read {
				out += "r"
			} else {
				out += "u"
			}
		}
		out += "|"
	}
	return out
}

func c14Specs(tier string) []*sxSpec {
	var specs []*sxSpec
	for q := 1; q <= 4; q++ {
		for b := 1; b <= 4; b++ {
			q, b := q, b
			specs = append(specs, &sxSpec{Name: fmt.Sprintf("bufferedbus-q%d-b%d", q, b), MaxState: 2000000,
				New: func() sxSys { return newBufBusSys(q, b) }})
		}
	}
	specs = append(specs, &sxSpec{Name: "simplebus", New: func() sxSys { return &simpleBusSys{addedAtGet: map[int]int{}} }})
	for _, l := range []int{2, 4} {
		l := l
		specs = append(specs, &sxSpec{Name: fmt.Sprintf("queue-len%d", l),
			New: func() sxSys { return &queueSys{impl: comp.NewQueue[busItem](l), length: l, maxLen: 4} }})
	}
	for _, n := range []int{1, 2, 3} {
		n := n
		if n == 3 && tier != "thorough" {
			continue
		}
		specs = append(specs, &sxSpec{Name: fmt.Sprintf("broadcast-%dlisteners", n), MaxState: 2000000,
			New: func() sxSys { return &broadcastSys{impl: comp.NewBroadcast[int](n), n: n, model: make([][]bevent, n)} }})
	}
	return specs
}

func init() {
	register("C14", &Check{
		Shards: func(tier string) int { return len(c14Specs(tier)) },
		Run: func(c *RunCtx) {
			c.Sum.Rule = "SX: BFS to fix-point over BufferedBus (Add iff CanAdd, Connect, next cycle, Get, Pick x2 predicates, Get/Pick+Revert, Revert of the item taken earlier in the cycle, DeleteLast, Clean; capacities 1..4 x 1..4), SimpleBus, Queue (push, iterate-and-remove every subset, abandon after removal), Broadcast (notify, read+commit every subset); FIFO-with-stamps model; items are fresh ids with a 1-bit tag; canonical state = tags and relative stamps; non-trivial = distinct canonical states other than the initial one"
			sxRun(c, c14Specs(c.Tier))
			c.Assume("Revert hands back the item the consumer took earlier in the same cycle (immediately, or after other operations such as a Connect that refills the queue); an item handed back is not a producer's add, so it may make the queue exceed its capacity by one")
			c.Assume("producers call Add only while CanAdd() (BufferedBus) / no pending item (SimpleBus)")
			c.Assume("Queue iteration runs under the Go scheduler here; its interleavings are explored by C08")
		},
		Replay: sxReplayCase(c14Specs),
	})
}
