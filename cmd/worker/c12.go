package main

import (
	"encoding/json"
	"fmt"
	"strings"

	"github.com/teivah/majorana/risc"
)

// C12 — cycle accounting follows the documented latency model.
//
// For every program of the C01 general set and every initial state of a
// 7-element set:
//   MVP-1  : returned cycles == sum over the reference trace of
//            fetch (MemoryAccess) + decode (1) + [MemoryAccess if the instruction reads memory]
//            + InstructionType.Cycles() + write-back (RegisterAccess for a register result,
//            MemoryAccess for a store, 0 otherwise; none for the final ret)
//   MVP-2  : cycles <= MVP-1's
//   all    : cycles > 0 and cycles >= ceil(n / width)
//   all    : for every pair of initial states with the same reference pc
//            sequence and the same address sequence, equal cycles
// Only executions whose architectural result is right (class ok) take part in
// the relational oracles, so that C01 findings do not resurface here.

var c12Inits = []pxInit{
	pxInits[0], pxInits[1], pxInits[2], pxInits[3],
	{ID: "big", Regs: map[risc.RegisterType]int32{risc.T0: 0x7fffffff, risc.T1: -0x80000000, risc.T2: 0x12345678}, Mem: func(i int) int8 { return int8(i*13 + 5) }},
	{ID: "eq", Regs: map[risc.RegisterType]int32{risc.T0: 1, risc.T1: 1, risc.T2: 1}, Mem: func(i int) int8 { return -1 }},
	// register VALUES that look like addresses of the lines the programs touch
	{ID: "hi", Regs: map[risc.RegisterType]int32{risc.T0: 100, risc.T1: 70, risc.T2: 66}, Mem: func(i int) int8 { return int8(i%7 + 64) }},
}

func c12InitByID(id string) *pxInit {
	for i := range c12Inits {
		if c12Inits[i].ID == id {
			return &c12Inits[i]
		}
	}
	return nil
}

func writesRegister(t risc.InstructionType) bool {
	switch t {
	case risc.Beq, risc.Beqz, risc.Bge, risc.Bgeu, risc.Ble, risc.Blt, risc.Bltu, risc.Bne, risc.Bnez,
		risc.J, risc.Nop, risc.Ret, risc.Sb, risc.Sh, risc.Sw:
		return false
	}
	return true
}

// The documented latency table, kept here as an independent copy (README /
// common/latency: Apple M1 figures; risc.go: loads take 50 execute cycles,
// everything else 1).
const (
	docMemoryAccess   = 18 + 291
	docRegisterAccess = 1
	docDecode         = 1
)

func docExecuteCycles(t risc.InstructionType) int {
	switch t {
	case risc.Lb, risc.Lh, risc.Lw:
		return 50
	}
	return 1
}

func isLoad(t risc.InstructionType) bool  { return t == risc.Lb || t == risc.Lh || t == risc.Lw }
func isStore(t risc.InstructionType) bool { return t == risc.Sb || t == risc.Sh || t == risc.Sw }

// mvp1Model computes the documented MVP-1 cycle count from the reference trace.
func mvp1Model(app risc.Application, ref *refResult) int {
	total := 0
	for i, pc := range ref.PCs {
		t := app.Instructions[pc/4].InstructionType()
		total += docMemoryAccess // fetch
		total += docDecode       // decode
		if isLoad(t) {
			total += docMemoryAccess
		}
		total += docExecuteCycles(t)
		if t == risc.Ret && i == len(ref.PCs)-1 {
			break
		}
		switch {
		case isStore(t):
			total += docMemoryAccess
		case writesRegister(t):
			total += docRegisterAccess
		}
	}
	return total
}

func widthOf(cfg *pxConfig) int {
	if famOrder[cfg.Fam] < 6 {
		return 1
	}
	return cfg.P
}

type c12Case struct {
	Cfg   string `json:"cfg"`
	Prog  string `json:"prog"`
	Init  string `json:"init"`
	Init2 string `json:"init2,omitempty"`
	Rule  string `json:"rule"`
}

func sameTrace(a, b *refResult) bool {
	if len(a.PCs) != len(b.PCs) || len(a.Addrs) != len(b.Addrs) {
		return false
	}
	for i := range a.PCs {
		if a.PCs[i] != b.PCs[i] {
			return false
		}
	}
	for i := range a.Addrs {
		if a.Addrs[i] != b.Addrs[i] {
			return false
		}
	}
	return true
}

// c12Eval evaluates one rule instance; returns class ("ok" or violation) and detail.
func c12Eval(k c12Case) (string, string) {
	cfg := pxConfigByName(k.Cfg)
	in := c12InitByID(k.Init)
	if cfg == nil || in == nil {
		return "ok", "unknown case"
	}
	ref := refRun(k.Prog, in)
	if !ref.WellFormed || ref.Err != "" {
		return "ok", "not applicable"
	}
	out := pxExec(cfg, k.Prog, in, &ref, false, nil, nil)
	if out.Class != "ok" {
		return "ok", "result not ok: " + out.Class
	}
	switch k.Rule {
	case "mvp1-exact":
		app, _ := risc.Parse(k.Prog)
		want := mvp1Model(app, &ref)
		if out.Cycles != want {
			return "wrong-cycle-count", fmt.Sprintf("MVP-1 returned %d cycles, the latency model gives %d for %d executed instructions", out.Cycles, want, ref.Steps)
		}
	case "mvp2-not-slower":
		o1 := pxExec(pxConfigByName("mvp1"), k.Prog, in, &ref, false, nil, nil)
		if o1.Class == "ok" && out.Cycles > o1.Cycles {
			return "mvp2-slower", fmt.Sprintf("MVP-2 takes %d cycles, MVP-1 %d", out.Cycles, o1.Cycles)
		}
	case "lower-bound":
		w := widthOf(cfg)
		if out.Cycles <= 0 || out.Cycles < (ref.Steps+w-1)/w {
			return "below-lower-bound", fmt.Sprintf("%d cycles for %d executed instructions at issue width %d", out.Cycles, ref.Steps, w)
		}
	case "value-independence":
		in2 := c12InitByID(k.Init2)
		ref2 := refRun(k.Prog, in2)
		if !ref2.WellFormed || ref2.Err != "" || !sameTrace(&ref, &ref2) {
			return "ok", "not applicable"
		}
		out2 := pxExec(cfg, k.Prog, in2, &ref2, false, nil, nil)
		if out2.Class == "ok" && out2.Cycles != out.Cycles {
			return "value-dependent-cycles", fmt.Sprintf("same path and addresses: %d cycles from state %s, %d cycles from state %s", out.Cycles, k.Init, out2.Cycles, k.Init2)
		}
	}
	return "ok", ""
}

// c12Trampolines: one or two round trips between the start of the program and
// a region `pad` instructions further (beyond the 17-instruction L1I window).
func c12Trampolines() []string {
	body := []string{"", "nop", "addi t0, t0, 1", "lw t1, 0(zero)"}
	var out []string
	for _, pad := range []int{14, 18, 40} {
		padding := strings.TrimSuffix(strings.Repeat("nop\n", pad), "\n")
		for _, x := range body {
			for _, y := range body {
				out = append(out, lines("j far1", "back1:", x, "j end", padding, "far1:", y, "j back1", "end:", "addi t2, t0, 1"))
				out = append(out, lines("j far1", "back1:", x, "j far2", "back2:", x, "j end", padding, "far1:", y, "j back1", "far2:", y, "j back2", "end:", "addi t2, t0, 1"))
			}
		}
		// jumps only: no fetch ever hits the window
		out = append(out, lines("j far1", "back1:", "j end", padding, "far1:", "j back1", "end:", "ret"))
	}
	return out
}

func c12Run(c *RunCtx) {
	type set struct {
		alpha []string
		n     int
	}
	sets := []set{{alphaGeneral, 0}, {alphaGeneral, 1}, {alphaGeneral, 2}}
	if c.Thorough() {
		sets = append(sets, set{alphaCore, 3})
	}
	i := -1
	progs := 0
	var texts []func() string
	for _, st := range sets {
		alpha := st.alpha
		seqs(len(alpha), st.n, func(idx []int) {
			idx = append([]int(nil), idx...)
			texts = append(texts, func() string { return buildProg(alpha, idx) })
		})
	}
	// programs longer than the instruction-cache window, leaving it forwards and backwards
	for _, t := range c12Trampolines() {
		t := t
		texts = append(texts, func() string { return t })
	}
	{
		for _, mk := range texts {
			i++
			if !c.Mine(i) {
				continue
			}
			text := mk()
			progs++
			type run struct {
				ref refResult
				out map[string]pxOutcome
			}
			runs := map[string]*run{}
			app, _ := risc.Parse(text)
			nontrivial := false
			for ii := range c12Inits {
				in := &c12Inits[ii]
				ref := refRun(text, in)
				if !ref.WellFormed || ref.Err != "" {
					c.Sum.Outcomes["skipped"]++
					continue
				}
				r := &run{ref: ref, out: map[string]pxOutcome{}}
				runs[in.ID] = r
				for ci := range pxConfigs {
					cfg := &pxConfigs[ci]
					out := pxExec(cfg, text, in, &ref, false, nil, nil)
					r.out[cfg.Name] = out
					c.Sum.Evaluations++
					c.Sum.States++
					c.Sum.Validated++
					c.Sum.Transitions += int64(ref.Steps)
					if out.Class != "ok" {
						c.Sum.Outcomes["result-not-ok-excluded"]++
						continue
					}
					c.Sum.Outcomes["ok"]++
					fail := func(rule, class, detail, in2 string) {
						c.Sum.Outcomes[class]++
						c.Fail(cfg.Fam+"/"+class, class, c12Case{Cfg: cfg.Name, Prog: text, Init: in.ID, Init2: in2, Rule: rule}, detail)
					}
					if cfg.Name == "mvp1" {
						if want := mvp1Model(app, &ref); out.Cycles != want {
							fail("mvp1-exact", "wrong-cycle-count", fmt.Sprintf("MVP-1 returned %d cycles, the latency model gives %d for %d executed instructions", out.Cycles, want, ref.Steps), "")
						}
					}
					if cfg.Name == "mvp2" {
						if o1 := r.out["mvp1"]; o1.Class == "ok" && out.Cycles > o1.Cycles {
							fail("mvp2-not-slower", "mvp2-slower", fmt.Sprintf("MVP-2 takes %d cycles, MVP-1 %d", out.Cycles, o1.Cycles), "")
						}
					}
					w := widthOf(cfg)
					if out.Cycles <= 0 || out.Cycles < (ref.Steps+w-1)/w {
						fail("lower-bound", "below-lower-bound", fmt.Sprintf("%d cycles for %d executed instructions at issue width %d", out.Cycles, ref.Steps, w), "")
					}
				}
			}
			// value independence over all pairs of initial states
			for a := 0; a < len(c12Inits); a++ {
				for b := a + 1; b < len(c12Inits); b++ {
					ra, rb := runs[c12Inits[a].ID], runs[c12Inits[b].ID]
					if ra == nil || rb == nil || !sameTrace(&ra.ref, &rb.ref) {
						continue
					}
					nontrivial = true
					for ci := range pxConfigs {
						cfg := &pxConfigs[ci]
						oa, ob := ra.out[cfg.Name], rb.out[cfg.Name]
						if oa.Class != "ok" || ob.Class != "ok" {
							continue
						}
						c.Sum.Outcomes["value-pairs-compared"]++
						if oa.Cycles != ob.Cycles {
							c.Sum.Outcomes["value-dependent-cycles"]++
							c.Fail(cfg.Fam+"/value-dependent-cycles", "value-dependent-cycles",
								c12Case{Cfg: cfg.Name, Prog: text, Init: c12Inits[a].ID, Init2: c12Inits[b].ID, Rule: "value-independence"},
								fmt.Sprintf("same path and addresses: %d cycles from state %s, %d cycles from state %s", oa.Cycles, c12Inits[a].ID, ob.Cycles, c12Inits[b].ID))
						}
					}
				}
			}
			if nontrivial {
				c.Sum.Nontrivial++
			}
			if progs%101 == 1 {
				c.Sample(map[string]any{"program": strings.Split(strings.TrimSpace(text), "\n"), "initial_states": len(c12Inits), "configs": len(pxConfigs)})
			}
		}
	}
	c.AddExtra("programs", float64(progs))
	c.Sum.Rule = "PX: every program of the C01 general set up to length 2 (thorough: plus every length-3 program over the core alphabet) plus 99 trampoline programs (bodies of zero or one instruction at each landing point) (one or two round trips between the start of the program and a region 14 / 18 / 40 instructions further, i.e. inside and beyond the 17-instruction L1I window) x 7 initial states x 33 configurations; MVP-1 exact against the latency model computed from the reference trace, MVP-2 <= MVP-1, cycles > 0 and >= ceil(n/width) everywhere, and equal cycles for every pair of initial states with identical reference pc and address sequences; non-trivial = distinct programs for which at least one such pair of initial states exists"
	c.Assume("the latency table is an independent copy of the documented one (memory 309, register 1, decode 1, loads 50 execute cycles, others 1); an instruction that produces a register result pays the register write-back even when rd is zero")
	c.Assume("only executions whose architectural result equals the reference take part (wrong results are C01's)")
}

func init() {
	register("C12", &Check{
		Shards: func(tier string) int { return 64 },
		Run:    c12Run,
		Replay: func(prop string, raw json.RawMessage) (string, string) {
			var k c12Case
			if err := json.Unmarshal(raw, &k); err != nil {
				return "ok", err.Error()
			}
			return c12Eval(k)
		},
	})
	register("C03", &Check{Shards: func(tier string) int { return 64 }, Run: c03Run, Replay: c03Replay})
	for name, s := range map[string]*pxSuite{"C04": c04Suite, "C05": c05Suite, "C07": c07Suite, "C09": c09Suite, "C10": c10Suite} {
		s := s
		name := name
		switch name {
		case "C05", "C10":
			s.Inits = initsByID("pos")
		default:
			s.Inits = initsByID("pos", "neg")
		}
		register(name, &Check{
			Shards: func(tier string) int { return 64 },
			Run: func(c *RunCtx) {
				s2 := *s
				if name == "C07" {
					two, one := initsByID("pos", "neg"), initsByID("pos")
					s2.InitsFor = func(p pxProg) []*pxInit {
						if p.Tag == "memory" || p.Tag == "sweep" {
							return one
						}
						return two
					}
				}
				if name == "C04" && !c.Thorough() {
					two, one := initsByID("pos", "neg"), initsByID("pos")
					s2.InitsFor = func(p pxProg) []*pxInit {
						if p.Tag == "deps-core" {
							return one
						}
						return two
					}
				}
				if c.Thorough() && name == "C04" {
					two, one := initsByID("pos", "neg"), initsByID("pos")
					s2.InitsFor = func(p pxProg) []*pxInit {
						if p.Tag == "deps-len4" || p.Tag == "deps-core" {
							return one
						}
						return two
					}
				}
				pxRunSuite(c, &s2)
			},
			Replay: pxReplay(s),
		})
	}
}
