package main

import (
	"encoding/json"
	"fmt"
	"strings"
)

// SX — explicit-state breadth-first search over the API of one real component,
// side by side with a boring reference model.
//
// A state is reached by a history of operations. Live objects are not cloned:
// the successor of a state is produced by building a fresh system, replaying
// the (shortest) history that reached the state and applying one more
// operation. States are de-duplicated on a canonical form; every edge compares
// the implementation's return values and its complete observable state with
// the model.

type sxOp struct {
	Name string `json:"op"`
	Args []int  `json:"args,omitempty"`
}

func (o sxOp) String() string {
	if len(o.Args) == 0 {
		return o.Name
	}
	return fmt.Sprintf("%s%v", o.Name, o.Args)
}

// sxTagger is optionally implemented by systems that can classify the state
// in which a disagreement happened (used to attach failures to findings).
type sxTagger interface {
	FailTag() string
}

type sxSys interface {
	// Ops returns the operations enabled in the current state.
	Ops() []sxOp
	// Apply runs op on the implementation and on the model and returns "" or a
	// description of the first disagreement (return value or state).
	Apply(op sxOp) string
	// Canon is the canonical form of the current state (must determine all
	// future behaviour of implementation and model).
	Canon() string
}

type sxCase struct {
	System  string `json:"system"`
	History []sxOp `json:"history"`
}

type sxSpec struct {
	Name     string
	New      func() sxSys
	Prefix   []sxOp // applied (and checked) before the search starts
	MaxDepth int    // 0 = to fix-point
	MaxState int    // safety cap (reported)
}

func sxApply(s sxSys, op sxOp) (msg string) {
	defer func() {
		if r := recover(); r != nil {
			msg = fmt.Sprintf("panic in %s: %v", op, r)
		}
	}()
	return s.Apply(op)
}

// sxReplay rebuilds the state reached by hist; returns the system and the first
// mismatch met on the way ("" if none).
func sxReplay(spec *sxSpec, hist []sxOp) (sxSys, string) {
	s := spec.New()
	for _, op := range spec.Prefix {
		if m := sxApply(s, op); m != "" {
			return s, "prefix: " + m
		}
	}
	for _, op := range hist {
		if m := sxApply(s, op); m != "" {
			return s, m
		}
	}
	return s, ""
}

// sxBFS explores spec; failures are reported with the shortest history.
func sxBFS(c *RunCtx, spec *sxSpec) {
	s0, m := sxReplay(spec, nil)
	if m != "" {
		c.Fail(spec.Name, "mismatch", sxCase{spec.Name, nil}, m)
		return
	}
	seen := map[string]bool{s0.Canon(): true}
	frontier := [][]sxOp{nil}
	depth := 0
	var states, transitions int64 = 1, 0
	failsHere := 0
	for len(frontier) > 0 {
		if spec.MaxDepth > 0 && depth >= spec.MaxDepth {
			c.Cap(fmt.Sprintf("%s: depth bound %d reached with %d frontier states (not a fix-point)", spec.Name, spec.MaxDepth, len(frontier)))
			break
		}
		var next [][]sxOp
		for _, hist := range frontier {
			s, _ := sxReplay(spec, hist)
			ops := s.Ops()
			for i, op := range ops {
				if i > 0 {
					s, _ = sxReplay(spec, hist)
				}
				msg := sxApply(s, op)
				transitions++
				c.Sum.Validated++
				if msg != "" {
					c.Outcome("mismatch")
					if failsHere < 200000 {
						failsHere++
						h := append(append([]sxOp{}, hist...), op)
						group := spec.Name + "/" + op.Name
						if tg, ok := s.(sxTagger); ok {
							group += "/" + tg.FailTag()
						}
						c.Fail(group, "mismatch", sxCase{spec.Name, h}, msg)
					}
					continue // do not explore beyond a disagreement
				}
				c.Outcome("agree")
				k := s.Canon()
				if !seen[k] {
					seen[k] = true
					states++
					h := append(append([]sxOp{}, hist...), op)
					next = append(next, h)
					if states == 2 || (states%997 == 0 && len(c.Sum.Samples) < 4) {
						c.Sample(map[string]any{"system": spec.Name, "history": opsString(h), "state": k})
					}
				}
			}
			if spec.MaxState > 0 && states > int64(spec.MaxState) {
				c.Cap(fmt.Sprintf("%s: state cap %d hit at depth %d", spec.Name, spec.MaxState, depth))
				next = nil
				frontier = nil
				break
			}
		}
		frontier = next
		depth++
	}
	c.Sum.States += states
	c.Sum.Nontrivial += states - 1
	c.Sum.Transitions += transitions
	c.Sum.Evaluations += transitions
	c.MaxExtra("max_depth", float64(depth))
	fix := 0.0
	if len(frontier) == 0 {
		fix = 1
	}
	c.AddExtra("systems_explored", 1)
	c.AddExtra("systems_at_fixpoint", fix)
	if c.Sum.Extra["per_system"] == nil {
		c.Sum.Extra["per_system"] = map[string]any{}
	}
	c.Sum.Extra["per_system"].(map[string]any)[spec.Name] = map[string]any{"states": states, "transitions": transitions, "depth": depth, "fixpoint": fix == 1}
}

func opsString(h []sxOp) string {
	var parts []string
	for _, o := range h {
		parts = append(parts, o.String())
	}
	return strings.Join(parts, " ")
}

// sxReplayCase is the Replay function shared by the SX checks.
func sxReplayCase(specs func(tier string) []*sxSpec) func(string, json.RawMessage) (string, string) {
	return func(prop string, raw json.RawMessage) (string, string) {
		var cs sxCase
		if err := json.Unmarshal(raw, &cs); err != nil {
			return "ok", err.Error()
		}
		for _, tier := range []string{"thorough", "quick"} {
			for _, sp := range specs(tier) {
				if sp.Name == cs.System {
					_, m := sxReplay(sp, cs.History)
					if m != "" {
						return "mismatch", m
					}
					return "ok", ""
				}
			}
		}
		return "ok", "unknown system " + cs.System
	}
}

// sxRun runs the specs assigned to this shard.
func sxRun(c *RunCtx, specs []*sxSpec) {
	for i, sp := range specs {
		if !c.Mine(i) {
			continue
		}
		sxBFS(c, sp)
	}
}
