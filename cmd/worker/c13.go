package main

import (
	"fmt"
	"sort"

	gcache "github.com/teivah/majorana/common/cache"
	"github.com/teivah/majorana/proc/comp"
)

// C13 — the line cache behaves as an LRU cache of its reference model.
//
// Reference model: a slice of lines in most-recently-used-first order.
//   read/Get   : first line covering the byte; the line becomes MRU
//   Write      : first line covering the start byte is updated in place
//   PushLine   : insert as MRU; when over capacity the LRU line is removed and
//                ITS contents are reported
//   PushLineWithEvictionWarning: insert as MRU; when over capacity the LRU line
//                is reported (base + contents) and stays until evicted;
//                ExistingLines/GetSubCacheLine see the first `capacity` lines only
//   EvictCacheLine: first line covering the address is removed, contents reported
// Every edge compares return values and the complete line list (order, bases,
// contents) of the implementation with the model.

type mline struct {
	base int
	data []int8
}

type lineCacheSys struct {
	impl     *comp.LRUCache
	lineLen  int
	capacity int
	model    []mline // MRU first
	bases    []int   // line bases the alphabet uses
	big      bool    // restricted alphabet for the real geometries
	pendingV *int    // base of a victim announced by PushLineWithEvictionWarning, not evicted yet
}

func newLineCacheSys(lineLen, nLines int, bases []int, big bool) *lineCacheSys {
	return &lineCacheSys{impl: comp.NewLRUCache(lineLen, lineLen*nLines), lineLen: lineLen, capacity: nLines, bases: bases, big: big}
}

func (s *lineCacheSys) mfind(addr int) int {
	for i, l := range s.model {
		if addr >= l.base && addr < l.base+s.lineLen {
			return i
		}
	}
	return -1
}

func fill(n int, base, v int) []int8 {
	d := make([]int8, n)
	for i := range d {
		d[i] = int8(v*16 + (base/4+i)%7)
	}
	return d
}

func (s *lineCacheSys) Ops() []sxOp {
	var ops []sxOp
	over := len(s.model) > s.capacity
	if over {
		// the only legal continuation the variants use: remove the announced victim
		// (other operations are still explored in the small geometries)
		ops = append(ops, sxOp{"EvictCacheLine", []int{*s.pendingV}})
		if s.big {
			return ops
		}
	}
	for _, b := range s.bases {
		vals := []int{1, 2}
		if s.big {
			vals = []int{1}
		}
		for _, v := range vals {
			if !over {
				ops = append(ops, sxOp{"PushLine", []int{b, v}})
				ops = append(ops, sxOp{"PushLineWithEvictionWarning", []int{b, v}})
			}
		}
		offs := []int{0, s.lineLen - 1}
		for _, o := range offs {
			ops = append(ops, sxOp{"Get", []int{b + o}})
		}
		ops = append(ops, sxOp{"GetCacheLine", []int{b}})
		ops = append(ops, sxOp{"GetSubCacheLine", []int{b + s.lineLen/2, s.lineLen / 2}})
		if !over || b != *s.pendingV {
			ops = append(ops, sxOp{"EvictCacheLine", []int{b}})
		}
		// Write only inside one resident line (what the callers guarantee)
		for _, o := range offs {
			if i := s.mfind(b + o); i >= 0 && b+o+1 <= s.model[i].base+s.lineLen {
				ops = append(ops, sxOp{"Write", []int{b + o, 9}})
			}
		}
		if i := s.mfind(b); i >= 0 && b+2 <= s.model[i].base+s.lineLen && s.lineLen >= 2 {
			ops = append(ops, sxOp{"Write2", []int{b, 5, 6}})
		}
	}
	return ops
}

func eq8(a, b []int8) bool {
	if len(a) != len(b) {
		return false
	}
	for i := range a {
		if a[i] != b[i] {
			return false
		}
	}
	return true
}

func (s *lineCacheSys) Apply(op sxOp) string {
	a := op.Args
	switch op.Name {
	case "PushLine":
		got := s.impl.PushLine(comp.AlignedAddress(a[0]), fill(s.lineLen, a[0], a[1]))
		s.model = append([]mline{{a[0], fill(s.lineLen, a[0], a[1])}}, s.model...)
		var want []int8
		if len(s.model) > s.capacity {
			want = s.model[len(s.model)-1].data
			s.model = s.model[:len(s.model)-1]
		}
		if !eq8(got, want) {
			return fmt.Sprintf("PushLine(%d) reported %v, the displaced LRU line holds %v", a[0], got, want)
		}
	case "PushLineWithEvictionWarning":
		got := s.impl.PushLineWithEvictionWarning(comp.AlignedAddress(a[0]), fill(s.lineLen, a[0], a[1]))
		s.model = append([]mline{{a[0], fill(s.lineLen, a[0], a[1])}}, s.model...)
		if len(s.model) > s.capacity {
			v := s.model[len(s.model)-1]
			if got == nil {
				return fmt.Sprintf("PushLineWithEvictionWarning(%d) reported no victim, LRU line is %d", a[0], v.base)
			}
			if int(got.Boundary[0]) != v.base || int(got.Boundary[1]) != v.base+s.lineLen || !eq8(got.Data, v.data) {
				return fmt.Sprintf("PushLineWithEvictionWarning(%d) reported %v, LRU line is base %d data %v", a[0], *got, v.base, v.data)
			}
			vb := v.base
			s.pendingV = &vb
		} else if got != nil {
			return fmt.Sprintf("PushLineWithEvictionWarning(%d) reported victim %v although the cache was not full", a[0], *got)
		}
	case "Get":
		got, ok := s.impl.Get(int32(a[0]))
		i := s.mfind(a[0])
		if i < 0 {
			if ok {
				return fmt.Sprintf("Get(%d) present (%d) but no resident line covers it", a[0], got)
			}
		} else {
			l := s.model[i]
			want := l.data[a[0]-l.base]
			if !ok || got != want {
				return fmt.Sprintf("Get(%d)=(%d,%v) want (%d,true)", a[0], got, ok, want)
			}
			s.model = append(append([]mline{l}, s.model[:i]...), s.model[i+1:]...)
		}
	case "GetCacheLine":
		got, ok := s.impl.GetCacheLine(comp.AlignedAddress(a[0]))
		i := s.mfind(a[0])
		if (i >= 0) != ok || (ok && !eq8(got, s.model[i].data)) {
			return fmt.Sprintf("GetCacheLine(%d)=(%v,%v) model index %d", a[0], got, ok, i)
		}
	case "GetSubCacheLine":
		addr, sub := a[0], a[1]
		gotA, gotD, ok := s.impl.GetSubCacheLine([]int32{int32(addr), int32(addr + 1)}, int32(sub))
		// only the first `capacity` lines are visible
		idx := -1
		for i, l := range s.model {
			if i >= s.capacity {
				break
			}
			if addr >= l.base && addr < l.base+s.lineLen {
				idx = i
				break
			}
		}
		if idx < 0 {
			if ok {
				return fmt.Sprintf("GetSubCacheLine(%d) found %v but no visible line covers it", addr, gotD)
			}
		} else {
			l := s.model[idx]
			al := addr - addr%sub
			if al < l.base || al+sub > l.base+s.lineLen {
				// sub line not inside the (possibly unaligned) line: behaviour undefined, skip comparison
				return ""
			}
			want := l.data[al-l.base : al-l.base+sub]
			if !ok || int(gotA) != al || !eq8(gotD, want) {
				return fmt.Sprintf("GetSubCacheLine(%d,%d)=(%d,%v,%v) want (%d,%v)", addr, sub, gotA, gotD, ok, al, want)
			}
		}
	case "EvictCacheLine":
		got, ok := s.impl.EvictCacheLine(comp.AlignedAddress(a[0]))
		i := s.mfind(a[0])
		if i < 0 {
			if ok {
				return fmt.Sprintf("EvictCacheLine(%d) removed %v but no resident line covers it", a[0], got)
			}
		} else {
			if !ok || !eq8(got, s.model[i].data) {
				return fmt.Sprintf("EvictCacheLine(%d)=(%v,%v) want %v", a[0], got, ok, s.model[i].data)
			}
			s.model = append(append([]mline{}, s.model[:i]...), s.model[i+1:]...)
		}
		if len(s.model) <= s.capacity {
			s.pendingV = nil
		}
	case "Write":
		s.impl.Write(int32(a[0]), []int8{int8(a[1])})
		i := s.mfind(a[0])
		s.model[i].data[a[0]-s.model[i].base] = int8(a[1])
	case "Write2":
		s.impl.Write(int32(a[0]), []int8{int8(a[1]), int8(a[2])})
		i := s.mfind(a[0])
		s.model[i].data[a[0]-s.model[i].base] = int8(a[1])
		s.model[i].data[a[0]-s.model[i].base+1] = int8(a[2])
	default:
		panic("unknown op " + op.Name)
	}
	return s.compare()
}

func (s *lineCacheSys) compare() string {
	lines := s.impl.Lines()
	if len(lines) != len(s.model) {
		return fmt.Sprintf("resident lines: implementation %d, model %d (capacity %d)", len(lines), len(s.model), s.capacity)
	}
	for i, l := range lines {
		m := s.model[i]
		if int(l.Boundary[0]) != m.base || int(l.Boundary[1]) != m.base+s.lineLen || !eq8(l.Data, m.data) {
			return fmt.Sprintf("line %d (MRU order): implementation %v, model base %d data %v", i, l, m.base, m.data)
		}
	}
	ex := s.impl.ExistingLines()
	wantN := len(s.model)
	if wantN > s.capacity {
		wantN = s.capacity
	}
	if len(ex) != wantN {
		return fmt.Sprintf("ExistingLines: %d lines, want %d", len(ex), wantN)
	}
	if s.pendingV == nil && len(s.model) > s.capacity {
		return fmt.Sprintf("%d resident lines exceed capacity %d with no announced victim", len(s.model), s.capacity)
	}
	return ""
}

func (s *lineCacheSys) Canon() string {
	out := ""
	for _, l := range s.model {
		out += fmt.Sprintf("%d:%v;", l.base, l.data)
	}
	if s.pendingV != nil {
		out += fmt.Sprintf("victim=%d", *s.pendingV)
	}
	return out
}

// ---- generic key/value LRU (common/cache)

type kvSys struct {
	impl     *gcache.LRUCache[int, int]
	capacity int
	order    []int // least recently used first
	vals     map[int]int
	keys     []int
}

func newKVSys(capacity int, keys []int) *kvSys {
	return &kvSys{impl: gcache.NewLRUCache[int, int](capacity), capacity: capacity, vals: map[int]int{}, keys: keys}
}

func (s *kvSys) touch(k int) {
	for i, x := range s.order {
		if x == k {
			s.order = append(append([]int{}, s.order[:i]...), s.order[i+1:]...)
			break
		}
	}
	s.order = append(s.order, k)
}

func (s *kvSys) Ops() []sxOp {
	var ops []sxOp
	for _, k := range s.keys {
		ops = append(ops, sxOp{"Put", []int{k, 1}}, sxOp{"Put", []int{k, 2}}, sxOp{"Get", []int{k}})
	}
	// Find over every non-empty subset of the key set
	for mask := 1; mask < 1<<len(s.keys); mask++ {
		var sub []int
		for i, k := range s.keys {
			if mask&(1<<i) != 0 {
				sub = append(sub, k)
			}
		}
		ops = append(ops, sxOp{"Find", sub})
	}
	return ops
}

func (s *kvSys) Apply(op sxOp) string {
	a := op.Args
	switch op.Name {
	case "Put":
		s.impl.Put(a[0], a[1])
		if _, ok := s.vals[a[0]]; !ok && len(s.vals) == s.capacity {
			lru := s.order[0]
			s.order = s.order[1:]
			delete(s.vals, lru)
		}
		s.vals[a[0]] = a[1]
		s.touch(a[0])
	case "Get":
		got, ok := s.impl.Get(a[0])
		want, wok := s.vals[a[0]]
		if ok != wok || got != want {
			return fmt.Sprintf("Get(%d)=(%d,%v) want (%d,%v)", a[0], got, ok, want, wok)
		}
		if wok {
			s.touch(a[0])
		}
	case "Find":
		got, ok := s.impl.Find(a)
		want, wok := 0, false
		for _, k := range s.order { // least recently used candidate first
			for _, c := range a {
				if c == k {
					want, wok = k, true
				}
			}
			if wok {
				break
			}
		}
		if ok != wok || got != want {
			return fmt.Sprintf("Find(%v)=(%d,%v) want least-recently-used candidate (%d,%v); recency order %v", a, got, ok, want, wok, s.order)
		}
		if wok {
			s.touch(want)
		}
	}
	// complete state comparison on every edge (the search prunes on the model's
	// canonical state, so a silent divergence must not survive an edge)
	order, vals := s.impl.VerifState()
	if fmt.Sprint(order) != fmt.Sprint(s.order) {
		return fmt.Sprintf("after %s recency order %v, model %v", op, order, s.order)
	}
	if len(vals) != len(s.vals) {
		return fmt.Sprintf("after %s resident keys %v, model %v", op, vals, s.vals)
	}
	for k, v := range s.vals {
		if w, ok := vals[k]; !ok || w != v {
			return fmt.Sprintf("after %s resident keys %v, model %v", op, vals, s.vals)
		}
	}
	if len(s.vals) > s.capacity {
		return "model exceeded capacity"
	}
	return ""
}

func (s *kvSys) Canon() string {
	ks := make([]int, 0, len(s.vals))
	for k := range s.vals {
		ks = append(ks, k)
	}
	sort.Ints(ks)
	out := fmt.Sprint(s.order, "|")
	for _, k := range ks {
		out += fmt.Sprintf("%d=%d,", k, s.vals[k])
	}
	return out
}

func c13Specs(tier string) []*sxSpec {
	thorough := tier == "thorough"
	var specs []*sxSpec
	small := func(name string, lineLen, n int, bases []int, depth int) {
		specs = append(specs, &sxSpec{Name: name, MaxDepth: depth, MaxState: 400000,
			New: func() sxSys { return newLineCacheSys(lineLen, n, bases, false) }})
	}
	// small geometries: aligned lines (capacity+2 of them)
	small("line4x2", 4, 2, []int{0, 4, 8, 12}, pick(thorough, 0, 6))
	small("line4x3", 4, 3, []int{0, 4, 8, 12, 16}, pick(thorough, 7, 4))
	// overlapping / unaligned bases as MVP-3..5 produce them (first-match rule)
	small("line4x2-unaligned", 4, 2, []int{0, 2, 4, 8}, pick(thorough, 0, 5))
	small("line2x1", 2, 1, []int{0, 2, 4}, 0)
	// real geometries after a capacity-filling prefix
	big := func(name string, lineLen, n int, depth int) {
		var prefix []sxOp
		for i := 0; i < n; i++ {
			prefix = append(prefix, sxOp{"PushLine", []int{i * lineLen, 1}})
		}
		// alphabet: MRU line, a middle line, the two LRU lines, two non-resident lines
		bases := []int{(n - 1) * lineLen, (n / 2) * lineLen, lineLen, 0, n * lineLen, (n + 1) * lineLen}
		specs = append(specs, &sxSpec{Name: name, Prefix: prefix, MaxDepth: depth, MaxState: 300000,
			New: func() sxSys { return newLineCacheSys(lineLen, n, bases, true) }})
	}
	big("line64B-1KB", 64, 16, pick(thorough, 4, 3))
	big("line128B-4KB", 128, 32, pick(thorough, 4, 3))
	// generic LRU
	kv := func(name string, capacity int, keys []int, depth int) {
		specs = append(specs, &sxSpec{Name: name, MaxDepth: depth, MaxState: 400000,
			New: func() sxSys { return newKVSys(capacity, keys) }})
	}
	kv("kvlru-cap2", 2, []int{0, 1, 2, 3}, 0)
	kv("kvlru-cap3", 3, []int{0, 1, 2, 3}, 0)
	kv("kvlru-cap1", 1, []int{0, 1, 2}, 0)
	return specs
}

func pick(thorough bool, a, b int) int {
	if thorough {
		return a
	}
	return b
}

func init() {
	register("C13", &Check{
		Shards: func(tier string) int { return len(c13Specs(tier)) },
		Run: func(c *RunCtx) {
			c.Sum.Rule = "SX: BFS over operation histories of comp.LRUCache (PushLine, PushLineWithEvictionWarning, Get, GetCacheLine, GetSubCacheLine, Write, EvictCacheLine) and common/cache.LRUCache (Put, Get, Find) against a list model; states de-duplicated on the canonical MRU-ordered (base, contents) list; non-trivial = distinct canonical states other than the initial one; every edge compares return values and the complete line list"
			sxRun(c, c13Specs(c.Tier))
			c.Assume("Write is generated only for byte ranges inside one resident line and line contents handed to the cache are never aliased by the caller (what the MMUs guarantee)")
		},
		Replay: sxReplayCase(c13Specs),
	})
}
