package main

import (
	"encoding/json"
	"fmt"
	"strings"
)

// PX suites of C03, C04, C05, C07, C09, C10.

func pipelined(c *pxConfig) bool  { return famOrder[c.Fam] >= 4 }
func cached(c *pxConfig) bool     { return famOrder[c.Fam] >= 3 }
func multiIssue(c *pxConfig) bool { return famOrder[c.Fam] >= 6 }

func wrongResult(class string) bool { return class == "wrong-registers" || class == "wrong-memory" }

const post = "addi s11, t0, 1\nsw s11, 128(zero)" // a register no template uses: final t0..t3 stay observable

func lines(parts ...string) string {
	var out []string
	for _, p := range parts {
		if p != "" {
			out = append(out, p)
		}
	}
	return joinProg(out)
}

func countLines(s string) int {
	n := 0
	for _, l := range strings.Split(s, "\n") {
		l = strings.TrimSpace(l)
		if l != "" && !strings.HasSuffix(l, ":") {
			n++
		}
	}
	return n
}

// ------------------------------------------------------------------ C03

var c03Pre = []string{
	"",
	"lw t3, 0(zero)",   // warms line A; an older long-latency load
	"lw t3, 64(zero)",  // warms line B
	"sw t3, 192(zero)", // an older store that misses
}

// branches; %T is replaced by the byte address of the target label
var c03Branches = []string{
	// resolved late: the operand comes from a load that misses (the outer branch of a nest)
	"lw t5, 448(zero)\nbnez t5, target",
	"beq t0, t0, target",
	"bne t0, t1, target",
	"blt t0, t1, target",
	"bge t0, t1, target",
	"bltu t0, t1, target",
	"bnez t1, target",
	"j target",
	"jal t4, target",
	"li t4, %T\njalr zero, t4, 0",
	"ret",
}

var c03Shadow = []string{
	"addi t0, t0, 7",
	"li t1, 99",
	"sw t1, 0(zero)",
	"sb t1, 65(zero)",
	"sw t1, 256(zero)",
	"lw t0, 0(zero)",
	"lw t1, 320(zero)",
	"lw t0, 9000(zero)", // out of bounds: only legal because it is never on the executed path
	"jal ra, target",
	"jalr ra, t1, 0",
	"div t0, t1, zero",
	"bne t0, t1, target",
	"ret",
	"beq t0, t0, far", // a nested branch to a higher address than the outer target
	"addi t1, t1, 64", // producer of an address register
	"lw t2, 0(t1)",    // load through that register (forwarded base)
}

type c03Case struct {
	Cfg    string `json:"cfg"`
	Init   string `json:"init"`
	Prog   string `json:"prog"`
	NopRef string `json:"same_program_with_nop_shadow"`
}

func c03Build(pre, br string, shadow []string) string {
	b := br
	if strings.Contains(b, "%T") {
		tgt := 4 * (countLines(pre) + countLines(b) + len(shadow))
		b = strings.ReplaceAll(b, "%T", fmt.Sprint(tgt))
	}
	return lines(pre, b, strings.Join(shadow, "\n"), "target:", post, "far:", "addi t6, t6, 1")
}

// c03BuildReentry: the second shadow instruction is also reachable on the
// executed path (the code after the branch target jumps back to it).
func c03BuildReentry(pre, br string, s0, s1 string) string {
	b := br
	if strings.Contains(b, "%T") {
		tgt := 4 * (countLines(pre) + countLines(b) + 3)
		b = strings.ReplaceAll(b, "%T", fmt.Sprint(tgt))
	}
	return lines(pre, b, s0, "re:", s1, "j far", "target:", post, "j re", "far:", "addi t6, t6, 1")
}

// c03Compare is the verdict: the run with the real shadow must be
// indistinguishable (outcome class, registers, memory) from the run of the same
// program whose shadow is made of nops.
func c03Compare(base, out *pxOutcome) (string, string) {
	if out.Class != base.Class {
		switch out.Class {
		case "error", "panic", "hang", "spawn-panic":
			return "shadow-" + out.Class, fmt.Sprintf("run ends with %s (%s); with a nop shadow it ends with %s", out.Class, out.Detail, base.Class)
		}
		return "shadow-changes-outcome", fmt.Sprintf("outcome %s (%s); with a nop shadow: %s (%s)", out.Class, out.Detail, base.Class, base.Detail)
	}
	if out.Class == "error" || out.Class == "panic" || out.Class == "hang" {
		return "ok", ""
	}
	for r := 1; r < 32; r++ {
		if out.Regs[r] != base.Regs[r] {
			return "shadow-changes-register", fmt.Sprintf("x%d=%d, with a nop shadow %d", r, out.Regs[r], base.Regs[r])
		}
	}
	for i := range base.Mem {
		if out.Mem[i] != base.Mem[i] {
			return "shadow-changes-memory", fmt.Sprintf("mem[%d]=%d, with a nop shadow %d", i, out.Mem[i], base.Mem[i])
		}
	}
	return "ok", ""
}

func c03Run(c *RunCtx) {
	maxShadow := 2
	if c.Thorough() {
		maxShadow = 3
	}
	cfgs := cfgsWhere(pipelined)
	stdInits, reInits := initsByID("pos", "ra"), initsByID("al")
	if c.Thorough() {
		stdInits, reInits = initsByID("pos", "ra", "al"), initsByID("al", "pos")
	}
	item := -1
	progs := 0
	type key struct{ twin, cfg, init string }
	for _, pre := range c03Pre {
		for _, br := range c03Branches {
			base := map[key]*pxOutcome{}
			refs := map[string]*refResult{}
			// one (program, twin, wrong-path pcs) case
			check := func(text, twin string, offPath []int32, inits []*pxInit) {
				progs++
				counted := false
				for _, in := range inits {
					ref := refRun(text, in)
					// C03 is about instructions the executed path skips: the reference must be
					// well formed and must not execute any of the wrong-path instructions
					onPath := false
					for _, pc := range ref.PCs {
						for _, o := range offPath {
							if pc == o {
								onPath = true
							}
						}
					}
					if !ref.WellFormed || ref.Err != "" || onPath {
						c.Sum.Outcomes["skipped-shadow-on-executed-path"]++
						continue
					}
					if !counted {
						counted = true
						c.Sum.Nontrivial++
					}
					bref := refs[twin+"|"+in.ID]
					if bref == nil {
						r := refRun(twin, in)
						bref = &r
						refs[twin+"|"+in.ID] = bref
					}
					for _, cfg := range cfgs {
						k := key{twin, cfg.Name, in.ID}
						b := base[k]
						if b == nil {
							o := pxExec(cfg, twin, in, bref, false, nil, nil)
							b = &o
							base[k] = b
							c.Sum.Evaluations++
						}
						out := pxExec(cfg, text, in, &ref, false, nil, nil)
						c.Sum.Evaluations++
						c.Sum.States++
						c.Sum.Validated++
						c.Sum.Transitions += int64(ref.Steps)
						class, detail := c03Compare(b, &out)
						c.Sum.Outcomes[class]++
						if class != "ok" {
							c.Fail(cfg.Fam+"/"+class, class, c03Case{Cfg: cfg.Name, Init: in.ID, Prog: text, NopRef: twin}, detail)
						}
					}
				}
				if progs%211 == 1 {
					c.Sample(map[string]any{"program": strings.Split(strings.TrimSpace(text), "\n"), "nop_shadow_twin": strings.Split(strings.TrimSpace(twin), "\n")})
				}
			}
			first := int32(4 * (countLines(pre) + countLines(br)))
			for n := 1; n <= maxShadow; n++ {
				nops := make([]string, n)
				for i := range nops {
					nops[i] = "nop"
				}
				baseText := c03Build(pre, br, nops)
				var off []int32
				for i := 0; i < n; i++ {
					off = append(off, first+int32(4*i))
				}
				seqs(len(c03Shadow), n, func(idx []int) {
					item++
					if !c.Mine(item) {
						return
					}
					sh := make([]string, n)
					for i, k := range idx {
						sh[i] = c03Shadow[k]
					}
					check(c03Build(pre, br, sh), baseText, off, stdInits)
					if n == 2 && br != "ret" {
						// re-entry: the second shadow instruction is also on the executed path;
						// only the first one is wrong-path, only that one becomes a nop in the twin
						check(c03BuildReentry(pre, br, sh[0], sh[1]), c03BuildReentry(pre, br, "nop", sh[1]), []int32{first}, reInits)
					}
				})
			}
		}
	}
	c.AddExtra("programs", float64(progs))
	c.Sum.Rule = "PX: pre x BR x shadow x post: pre in {none, warm line A (older load miss), warm line B, older store miss}, BR in {a late-resolving bnez fed by a missing load, beq/bne/blt/bge/bltu/bnez (2 initial states, thorough 3, decide taken / not taken; the re-entry layout uses a state with aligned register values), j, jal, jalr, ret}, shadow = every sequence of length 1..2 (quick) / 1..3 (thorough) over 16 templates (register writes, stores to cached/uncached lines, loads incl. out-of-bounds and through a just-written base register, jal/jalr with link, div by zero, nested branches to the outer target and to a higher address, ret), plus for every length-2 shadow the re-entry layout in which the second shadow instruction is also reached on the executed path; MVP-4..8 x parallelism 1..4 (30 configurations). Only cases in which the sequential reference skips the wrong-path instructions are kept. Oracle (differential): outcome class, registers x1..x31 and the whole memory equal those of the same program with the wrong-path instructions replaced by nops on the same configuration; non-trivial = distinct kept programs"
	c.Assume("defects that hit the nop-shadow twin in the same way (e.g. an older load lost by the flush itself) are C01's, not C03's")
}

func c03Replay(prop string, raw json.RawMessage) (string, string) {
	var k c03Case
	if err := json.Unmarshal(raw, &k); err != nil {
		return "ok", err.Error()
	}
	cfg, in := pxConfigByName(k.Cfg), pxInitByID(k.Init)
	if cfg == nil || in == nil {
		return "ok", "unknown case"
	}
	ref, bref := refRun(k.Prog, in), refRun(k.NopRef, in)
	if !ref.WellFormed || !bref.WellFormed {
		return "ok", "reference not well formed"
	}
	b := pxExec(cfg, k.NopRef, in, &bref, false, nil, nil)
	o := pxExec(cfg, k.Prog, in, &ref, false, nil, nil)
	return c03Compare(&b, &o)
}

// ------------------------------------------------------------------ C04

var c04Alpha = []string{
	"addi t0, zero, 3",
	"addi t1, t0, 1",
	"add t0, t0, t1",
	"add t2, t0, t1",
	"mul t1, t1, t1",
	"mv t0, t2",
	"sub t2, t2, t0",
	"lw t0, 0(zero)",
	"lw t1, 64(zero)",
	"lw t2, 4(zero)",
	"sw t0, 136(zero)",
	"sw t2, 140(zero)",
	"add t3, t0, t0",    // duplicated source register
	"addi zero, t0, 1",  // destination zero
	"add t2, t0, zero",  // source zero
	"jal t1, j%d\nj%d:", // link register written by a jump that flushes
	"li t3, 3\nl%d:\nadd t2, t2, t3\naddi t3, t3, -1\nbnez t3, l%d", // loop-carried dependence, reader below writer
}

var c04Core = []int{0, 1, 2, 3, 4, 7, 8, 10, 12}

func c04Programs(tier string, emit func(p pxProg)) {
	full, core, loopMax := 3, 4, 2
	if tier == "thorough" {
		full, core, loopMax = 4, 5, 3
	}
	for _, warm := range []string{"", "lw t3, 0(zero)\nlw t3, 64(zero)"} {
		for n := 1; n <= full; n++ {
			seqs(len(c04Alpha), n, func(idx []int) {
				var b []string
				if n >= loopMax+1 {
					for _, k := range idx {
						if k == len(c04Alpha)-1 {
							return // the loop template takes part up to length 2 (quick) / 3 only (cost)
						}
					}
				}
				for i, k := range idx {
					b = append(b, strings.ReplaceAll(c04Alpha[k], "%d", fmt.Sprint(i)))
				}
				emit(pxProg{Text: lines(warm, strings.Join(b, "\n"), post), Tag: fmt.Sprintf("deps-len%d", n)})
			})
		}
		seqs(len(c04Core), core, func(idx []int) {
			var b []string
			for _, k := range idx {
				b = append(b, c04Alpha[c04Core[k]])
			}
			emit(pxProg{Text: lines(warm, strings.Join(b, "\n"), post), Tag: "deps-core"})
		})
	}
}

var c04Suite = &pxSuite{
	Configs:    cfgsWhere(pipelined),
	Programs:   c04Programs,
	Violates:   wrongResult,
	Nontrivial: func(ref *refResult, p pxProg) bool { return ref.Deps > 1 },
	Rule:       "PX: every sequence of length <= 3 (quick) / <= 4 (thorough) over the 17-template register-pressure alphabet (addi/add/mul/mv/sub over t0..t3 with rd=rs aliases, duplicated sources, zero as destination and as source, a jal whose link register is read next, a three-iteration loop whose loop-carried reader sits below its writer (in sequences up to length 2 (quick) / 3 only), loads that miss then hit into t0/t1/t2, stores as late readers) and of length 4 / 5 over a 9-template core, x cache pre-state {cold, lines 0 and 64 warm}, on MVP-4..8 x parallelism 1..4; oracle = every register holds the value of its last writer in program order (sequential reference) and stores saw the program-order value; non-trivial = distinct programs with at least two register dependences within a distance of two instructions",
}

// ------------------------------------------------------------------ C05

var c05Alpha = []string{
	"lw t0, 0(zero)", "lb t1, 2(zero)", "lh t2, 62(zero)", "lb t1, 63(zero)", "lw t0, 60(zero)",
	"sw t0, 0(zero)", "sb t1, 2(zero)", "sh t2, 62, zero", "sb t1, 63(zero)", "sw t2, 4(zero)",
	"lw t1, 64(zero)", "sw t0, 64(zero)", "lb t2, 127(zero)", "sb t0, 126(zero)",
	"lw t2, 1024(zero)", "sw t1, 1028(zero)", "lb t0, 1087(zero)",
	"addi t0, t0, 1",
	"lb t2, 8191(zero)", "sw t1, 8188(zero)", // the last line of memory
}

// sweeps touch n distinct lines with stride s starting at base b (loop)
func sweep(kind string, n, stride, base int, id int) string {
	op := "lw t5, 0(t4)\nadd t6, t6, t5"
	if kind == "W" {
		op = "sw t4, 0(t4)"
	}
	return fmt.Sprintf("li t3, %d\nli t4, %d\nsw%d:\n%s\naddi t4, t4, %d\naddi t3, t3, -1\nbnez t3, sw%d", n, base, id, op, stride, id)
}

func c05Sweeps(tier string) []string {
	sweeps := []string{
		sweep("R", 17, 64, 0, 1), sweep("W", 17, 64, 0, 1), sweep("W", 33, 64, 0, 1), sweep("W", 33, 128, 0, 1),
		sweep("W", 17, 64, 0, 1) + "\n" + sweep("R", 17, 64, 0, 2),
		// the same lines read twice: evicted lines are fetched again
		sweep("R", 18, 64, 0, 1) + "\n" + sweep("R", 18, 64, 0, 2),
	}
	if tier == "thorough" {
		sweeps = append(sweeps, sweep("R", 33, 128, 0, 1), sweep("W", 16, 64, 0, 1), sweep("W", 18, 64, 64, 1), sweep("W", 34, 128, 0, 1)+"\n"+sweep("R", 34, 128, 0, 2),
			sweep("R", 34, 128, 0, 1)+"\n"+sweep("R", 34, 128, 0, 2))
	}
	return sweeps
}

var c05Small = []string{"", "lw t0, 0(zero)", "sw t1, 0(zero)", "sb t2, 70(zero)", "lw t1, 2048(zero)", "sw t0, 2112(zero)", "lb t2, 1(zero)", "sw t2, 4032(zero)"}

func c05Programs(tier string, emit func(p pxProg)) {
	n := 3
	if tier == "thorough" {
		n = 4
	}
	for k := 1; k <= n; k++ {
		seqs(len(c05Alpha), k, func(idx []int) {
			var b []string
			for _, i := range idx {
				b = append(b, c05Alpha[i])
			}
			emit(pxProg{Text: lines(strings.Join(b, "\n"), "sw t0, 128(zero)\nsw t1, 132(zero)\nsw t2, 136(zero)"), Tag: "mem"})
		})
	}
	// a sweep that displaces lines, then one access to EACH line of the sweep in turn (one of them is the
	// line being displaced / written back at that moment, whichever core holds it)
	for si, n := range []int{17, 33} {
		if tier != "thorough" && si == 0 {
			continue
		}
		for _, kind := range []string{"W", "R"} {
			for k := 0; k < n; k++ {
				for _, acc := range []string{"lw t0, %d(zero)", "sw t1, %d(zero)"} {
					if tier != "thorough" && kind == "R" && strings.HasPrefix(acc, "lw") {
						continue
					}
					emit(pxProg{Text: lines(sweep(kind, n, 64, 0, 1), fmt.Sprintf(acc, 64*k), "sw t0, 5000(zero)\nsw t1, 5004(zero)\nsw t6, 5012(zero)"), Tag: "sweep-then-line"})
				}
			}
		}
	}
	small := c05Small
	if tier != "thorough" {
		small = c05Small[:6]
	}
	for _, sw := range c05Sweeps(tier) {
		for _, before := range small {
			for _, after := range small {
				emit(pxProg{Text: lines(before, sw, after, "sw t0, 5000(zero)\nsw t1, 5004(zero)\nsw t2, 5008(zero)\nsw t6, 5012(zero)"), Tag: "sweep"})
			}
		}
	}
}

var c05Suite = &pxSuite{
	Configs:    cfgsWhere(cached),
	Programs:   c05Programs,
	Violates:   wrongResult,
	Nontrivial: func(ref *refResult, p pxProg) bool { return ref.MemOps >= 5 },
	Rule:       "PX: every sequence of length <= 3 (quick) / <= 4 (thorough) over the 20-template memory alphabet (lb/lh/lw/sb/sh/sw at line-relative offsets 0, 2, 4, 60, 62, 63 of lines 0, 64 and 1024 and the last word / byte of memory, so that every first-touch offset and same-line / other-line mixes occur) with all loaded registers stored to result slots, plus sweep macros (17 or 33 distinct lines read or written by a counted loop with stride 64 / 128: more lines than L1 has ways, more than L3 has ways; write sweep followed by read sweep) x {one access before} x {one access after} from 6 (quick) / 8 templates; sweeps that read the same 18 / 34 lines twice (evicted lines fetched again); a 33-line (thorough: also 17-line) sweep followed by one load / store to each line of the sweep in turn; MVP-3..8 x parallelism 1..4 (31 configurations); oracle = flat-memory reference (every loaded value via result slots, whole final memory image); non-trivial = distinct programs with at least 5 memory accesses (3 are the result stores)",
}

// ------------------------------------------------------------------ C09

var c09Body = []string{"", "addi t0, zero, 3", "lw t3, 0(zero)\nlw t3, 64(zero)"}

var c09Tail = []string{
	"lw t0, 0(zero)",
	"lw t1, 64(zero)",
	"lw t2, 320(zero)",
	"sw t0, 0(zero)",
	"sb t1, 65(zero)",
	"sw t1, 256(zero)",
	"addi t0, t0, 1",
	"add t2, t0, t1",
	"mul t1, t0, t0",
	"lw t1, 4(zero)\naddi t2, t1, 1",
}

var c09Exit = []string{"ret", ""}
var c09Junk = []string{"", "addi t0, t0, 64", "sw t1, 8(zero)", "li t2, 77\nsw t2, 320(zero)"}

func c09Programs(tier string, emit func(p pxProg)) {
	n := 2
	if tier == "thorough" {
		n = 3
	}
	for _, body := range c09Body {
		for k := 1; k <= n; k++ {
			seqs(len(c09Tail), k, func(idx []int) {
				var t []string
				for _, i := range idx {
					t = append(t, c09Tail[i])
				}
				tail := strings.Join(t, "\n")
				for _, ex := range c09Exit {
					if ex == "" {
						emit(pxProg{Text: lines(body, tail), Tag: "fall-off-the-end"})
						continue
					}
					for _, junk := range c09Junk {
						emit(pxProg{Text: lines(body, tail, ex, junk), Tag: "ret"})
					}
				}
			})
		}
	}
}

var c09Suite = &pxSuite{
	Configs:    cfgsWhere(pipelined),
	Programs:   c09Programs,
	Violates:   wrongResult,
	Nontrivial: func(ref *refResult, p pxProg) bool { return ref.MemOps > 0 || ref.Deps > 0 },
	Rule:       "PX: body ; tail ; EXIT [; junk]: body in {none, a register write, two warming loads}, tail = every sequence of length 1..2 (quick) / 1..3 (thorough) over 10 templates (loads that miss / hit, stores to cached and uncached lines, addi, dependent add, mul, load-use chain), EXIT in {ret, running past the last instruction}, junk after ret in {none, a register write, a store, a register write and a store} (must not execute), on MVP-4..8 x parallelism 1..4; oracle = sequential reference registers and memory (everything older than the exit has taken effect, nothing younger has); non-trivial = distinct programs whose tail contains a memory access or a register dependence",
}

// ------------------------------------------------------------------ C10

var c10Alpha = []string{
	"sw t0, 0(s0)",  // store word via base register s0 (= 0)
	"sw t1, 0(s1)",  // same word via an independent base register s1 (= 0)
	"sb t1, 1(s0)",  // one byte of that word
	"sw t2, 4(s1)",  // same line, other word
	"sw t0, 64(s0)", // other line
	"lw t0, 0(s1)",
	"lb t1, 1(s0)",
	"lw t2, 4(s0)",
	"lw t1, 64(s1)",
	"addi t0, t0, 1",
	"nop",
}

func c10Programs(tier string, emit func(p pxProg)) {
	n := 3
	if tier == "thorough" {
		n = 4
	}
	// "saturated write path": line 0 warm, then stores to uncached lines keep the
	// write units busy for a whole memory access while register results fill
	// the result bus; the sequence under test arrives behind them
	sat2 := "lw t3, 0(zero)\nadd t4, t3, t3\nsw t4, 1024(zero)\nsw t4, 2048(zero)\naddi a0, a0, 1\naddi a1, a1, 1\naddi a2, a2, 1\naddi a3, a3, 1"
	sat4 := "lw t3, 0(zero)\nadd t4, t3, t3\nsw t4, 1024(zero)\nsw t4, 2048(zero)\nsw t4, 3072(zero)\nsw t4, 4096(zero)\naddi a0, a0, 1\naddi a1, a1, 1\naddi a2, a2, 1\naddi a3, a3, 1\naddi a4, a4, 1\naddi a5, a5, 1\naddi a6, a6, 1\naddi a7, a7, 1"
	pres := []string{"", "lw t3, 0(zero)", sat2, sat4}
	for pi, pre := range pres {
		for k := 1; k <= n; k++ {
			if pi >= 2 && k > n-1 {
				continue // behind the saturating prefixes: one instruction less
			}
			seqs(len(c10Alpha), k, func(idx []int) {
				var b []string
				for _, i := range idx {
					b = append(b, c10Alpha[i])
				}
				emit(pxProg{Text: lines(pre, strings.Join(b, "\n"), "sw t0, 128(zero)\nsw t1, 132(zero)\nsw t2, 136(zero)"), Tag: "memdeps"})
			})
		}
	}
}

var c10Suite = &pxSuite{
	Configs:    cfgsWhere(func(c *pxConfig) bool { return (multiIssue(c)) || c.Fam == "mvp4" || c.Fam == "mvp5" }),
	Programs:   c10Programs,
	Violates:   wrongResult,
	Nontrivial: func(ref *refResult, p pxProg) bool { return hasConflict(ref) },
	Rule:       "PX: every sequence of length <= 3 (quick) / <= 4 (thorough) over the 11-template alphabet {sw/sb/lw/lb to the same byte, word and line through two independent base registers s0 and s1 (both 0), a word on another line, addi on a data register, nop} x pre-state {cold, line 0 warm, and (sequences one shorter) line 0 warm with the write path saturated by 2 resp. 4 stores to uncached lines followed by 4 resp. 8 independent register results}, loaded registers stored to result slots; MVP-6.0..8 x parallelism 1..4 and MVP-4/5 (write-buffer path); oracle = loaded values and final memory equal the sequential reference; non-trivial = distinct programs in which two accesses, at least one a store, touch the same 64-byte line (measured on the reference address trace)",
}

func hasConflict(ref *refResult) bool {
	seen := map[int32]int{}
	for _, a := range ref.Addrs {
		seen[a/64]++
	}
	for line, n := range seen {
		if n >= 2 && line != 2 { // line 2 (128..191) holds the result slots only
			return true
		}
	}
	return false
}

// ------------------------------------------------------------------ C07

var c07ErrTail = []string{"div t2, t0, zero", "rem t2, t1, zero", "j nowhere", "beq t0, t0, nowhere", "jal ra, nowhere", "li t3, 0\ndiv t2, t0, t3"}

func c07Programs(tier string, emit func(p pxProg)) {
	// the C01 general set (length <= 2 quick / <= 3 thorough)
	full := 2
	if tier == "thorough" {
		full = 3
	}
	for n := 0; n <= full; n++ {
		seqs(len(alphaGeneral), n, func(idx []int) {
			emit(pxProg{Text: buildProg(alphaGeneral, idx), Tag: "general"})
		})
	}
	// memory programs: every pair over the C05 and C10 alphabets, and the eviction sweeps
	for _, alpha := range [][]string{c05Alpha, c10Alpha} {
		n := 2
		if tier == "thorough" {
			n = 3
		}
		seqs(len(alpha), n, func(idx []int) {
			var b []string
			for _, k := range idx {
				b = append(b, alpha[k])
			}
			emit(pxProg{Text: lines(strings.Join(b, "\n"), "end:", post), Tag: "memory"})
		})
	}
	for _, sw := range c05Sweeps(tier) {
		for _, after := range c05Small {
			emit(pxProg{Text: lines(sw, after, "end:", post), Tag: "sweep"})
		}
	}
	// programs that reach a defined error after a prefix
	pl := 1
	if tier == "thorough" {
		pl = 2
	}
	for n := 0; n <= pl; n++ {
		seqs(len(alphaCore), n, func(idx []int) {
			var b []string
			for _, k := range idx {
				b = append(b, alphaCore[k])
			}
			for _, e := range c07ErrTail {
				emit(pxProg{Text: lines("mid:", strings.Join(b, "\n"), e, "end:", post), Tag: "error"})
			}
		})
	}
}

var c07Suite = &pxSuite{
	Configs:    cfgsWhere(func(*pxConfig) bool { return true }),
	Programs:   c07Programs,
	WantErrors: true,
	Violates: func(class string) bool {
		switch class {
		case "hang", "panic", "spawn-panic", "cycle-bound", "unexpected-ok", "error":
			return true
		}
		return false
	},
	Nontrivial: func(ref *refResult, p pxProg) bool { return ref.Err != "" || ref.Taken > 0 || ref.MemOps > 1 },
	Rule:       "PX: the C01 general program set (length <= 2 quick / <= 3 thorough) plus error programs (every prefix of length <= 1 / <= 2 over the core alphabet followed by div by zero, rem by zero, j / beq / jal to an undefined label, div by a register holding 0) on all 33 configurations x 2 initial states; oracle = the run returns: no Go panic (recovered and classified), no deadlock, cycle boundaries never exceed 309*(8n+120) for n executed instructions (the run is aborted there), returned cycles within the same bound, an error value iff the reference reaches a defined error; wrong results are not C07's concern; non-trivial = distinct programs reaching an error, taking a branch or accessing memory more than once",
}
