package main

import (
	"fmt"
	"sort"
	"strings"

	"github.com/teivah/majorana/proc/mvp1"
	"github.com/teivah/majorana/proc/mvp2"
	"github.com/teivah/majorana/proc/mvp3"
	"github.com/teivah/majorana/proc/mvp4"
	"github.com/teivah/majorana/proc/mvp5"
	mvp60 "github.com/teivah/majorana/proc/mvp6-0"
	mvp61 "github.com/teivah/majorana/proc/mvp6-1"
	mvp62 "github.com/teivah/majorana/proc/mvp6-2"
	mvp63 "github.com/teivah/majorana/proc/mvp6-3"
	mvp70 "github.com/teivah/majorana/proc/mvp7-0"
	mvp71 "github.com/teivah/majorana/proc/mvp7-1"
	mvp80 "github.com/teivah/majorana/proc/mvp8-0"
	"github.com/teivah/majorana/risc"
	"github.com/teivah/majorana/verifrt"
)

// PX — program-space explorer: runs one (configuration, program, initial
// state, choice vector) execution on the real variant and compares it with the
// sequential reference interpreter.

type vmIface interface {
	Run(app risc.Application) (int, error)
	Context() *risc.Context
}

type pxConfig struct {
	Name string
	Fam  string
	P    int
	New  func(mem int) vmIface
}

var pxConfigs = func() []pxConfig {
	c := []pxConfig{
		{"mvp1", "mvp1", 1, func(m int) vmIface { return mvp1.NewCPU(false, m) }},
		{"mvp2", "mvp2", 1, func(m int) vmIface { return mvp2.NewCPU(false, m) }},
		{"mvp3", "mvp3", 1, func(m int) vmIface { return mvp3.NewCPU(false, m) }},
		{"mvp4", "mvp4", 1, func(m int) vmIface { return mvp4.NewCPU(false, m) }},
		{"mvp5", "mvp5", 1, func(m int) vmIface { return mvp5.NewCPU(false, m) }},
	}
	for p := 1; p <= 4; p++ {
		p := p
		c = append(c,
			pxConfig{fmt.Sprintf("mvp6.0/%d", p), "mvp6.0", p, func(m int) vmIface { return mvp60.NewCPU(false, m, p, p) }},
			pxConfig{fmt.Sprintf("mvp6.1/%d", p), "mvp6.1", p, func(m int) vmIface { return mvp61.NewCPU(false, m, p, p) }},
			pxConfig{fmt.Sprintf("mvp6.2/%d", p), "mvp6.2", p, func(m int) vmIface { return mvp62.NewCPU(false, m, p, p) }},
			pxConfig{fmt.Sprintf("mvp6.3/%d", p), "mvp6.3", p, func(m int) vmIface { return mvp63.NewCPU(false, m, p, p) }},
			pxConfig{fmt.Sprintf("mvp7.0/%d", p), "mvp7.0", p, func(m int) vmIface { return mvp70.NewCPU(false, m, p) }},
			pxConfig{fmt.Sprintf("mvp7.1/%d", p), "mvp7.1", p, func(m int) vmIface { return mvp71.NewCPU(false, m, p) }},
			pxConfig{fmt.Sprintf("mvp8.0/%d", p), "mvp8.0", p, func(m int) vmIface { return mvp80.NewCPU(false, m, p) }},
		)
	}
	return c
}()

func pxConfigByName(n string) *pxConfig {
	for i := range pxConfigs {
		if pxConfigs[i].Name == n {
			return &pxConfigs[i]
		}
	}
	return nil
}

// famOrder gives the position of a family in the variant sequence.
var famOrder = map[string]int{"mvp1": 1, "mvp2": 2, "mvp3": 3, "mvp4": 4, "mvp5": 5, "mvp6.0": 6, "mvp6.1": 7, "mvp6.2": 8, "mvp6.3": 9, "mvp7.0": 10, "mvp7.1": 11, "mvp8.0": 12}

const pxMemSize = 8192

// ---- initial states

type pxInit struct {
	ID   string
	Regs map[risc.RegisterType]int32
	Mem  func(i int) int8
}

var pxInits = []pxInit{
	{ID: "pos", Regs: map[risc.RegisterType]int32{risc.T0: 5, risc.T1: 7, risc.T2: 11}, Mem: func(i int) int8 { return int8(i%61 + 1) }},
	{ID: "neg", Regs: map[risc.RegisterType]int32{risc.T0: -3, risc.T1: 7, risc.T2: -2147483648, risc.T3: -1}, Mem: func(i int) int8 { return int8(-(i%53 + 1)) }},
	{ID: "zero", Regs: map[risc.RegisterType]int32{}, Mem: func(i int) int8 { return 0 }},
	{ID: "ra", Regs: map[risc.RegisterType]int32{risc.T0: 5, risc.T1: 5, risc.T2: 9, risc.Ra: 8}, Mem: func(i int) int8 { return int8(i * 7) }},
	// aligned register values (usable as addresses)
	{ID: "al", Regs: map[risc.RegisterType]int32{risc.T0: 8, risc.T1: 64, risc.T2: 12}, Mem: func(i int) int8 { return int8(i%59 + 2) }},
	// stop flags for the loop programs of C08: zero at 1024..1027, non-zero elsewhere
	{ID: "loop", Regs: map[risc.RegisterType]int32{}, Mem: func(i int) int8 {
		if i >= 1024 && i < 1028 {
			return 0
		}
		return int8(i%61 + 1)
	}},
}

func pxInitByID(id string) *pxInit {
	for i := range pxInits {
		if pxInits[i].ID == id {
			return &pxInits[i]
		}
	}
	return nil
}

func (in *pxInit) apply(ctx *risc.Context) {
	for k, v := range in.Regs {
		ctx.Registers[k] = v
	}
	for i := range ctx.Memory {
		ctx.Memory[i] = in.Mem(i)
	}
}

// ---- reference interpreter

type refResult struct {
	WellFormed bool
	Why        string // why not well formed
	Err        string // defined error reached ("" if none)
	Regs       [32]int32
	Mem        []int8
	Steps      int
	PCs        []int32
	Addrs      []int32 // first address of every memory access, in order
	Taken      int     // taken branches / jumps
	MemOps     int
	Deps       int // instructions that read a register written by the previous two instructions
}

const refMaxSteps = 2000

func regsOf(ctx *risc.Context) [32]int32 {
	var r [32]int32
	for k, v := range ctx.Registers {
		if k > 0 && int(k) < 32 {
			r[k] = v
		}
	}
	return r
}

// refRun executes the program one instruction at a time, in program order, on
// a flat memory. Instruction effects come from the repository's own Run (on a
// private parse), so instruction-semantics defects are C02's, not C01's.
func refRun(text string, in *pxInit) (res refResult) {
	defer func() {
		if r := recover(); r != nil {
			res.WellFormed = false
			res.Why = fmt.Sprintf("reference panicked: %v", r)
		}
	}()
	app, err := risc.Parse(text)
	if err != nil {
		res.Why = "parse: " + err.Error()
		return
	}
	if len(app.Instructions) >= 250 {
		res.Why = "250 instructions or more"
		return
	}
	ctx := risc.NewContext(false, pxMemSize, false)
	in.apply(ctx)
	var pc int32
	n := int32(len(app.Instructions))
	var lastW [2]risc.RegisterType
	for pc/4 < n {
		if pc < 0 || pc%4 != 0 {
			res.Why = fmt.Sprintf("pc %d is not an instruction address", pc)
			return
		}
		res.Steps++
		if res.Steps > refMaxSteps {
			res.Why = "does not terminate within the step bound"
			return
		}
		res.PCs = append(res.PCs, pc)
		r := app.Instructions[pc/4]
		r.Forward(risc.Forward{})
		for _, rr := range r.ReadRegisters() {
			if rr != risc.Zero && (rr == lastW[0] || rr == lastW[1]) {
				res.Deps++
				break
			}
		}
		var mem []int8
		check := func(addrs []int32) bool {
			if len(addrs) == 0 {
				return true
			}
			if addrs[0] < 0 || int(addrs[len(addrs)-1]) >= pxMemSize || addrs[0]%int32(len(addrs)) != 0 {
				res.Why = fmt.Sprintf("misaligned or out-of-bounds access %v", addrs)
				return false
			}
			res.Addrs = append(res.Addrs, addrs[0])
			res.MemOps++
			return true
		}
		ra := r.MemoryRead(ctx, 0)
		if !check(ra) {
			return
		}
		for _, a := range ra {
			mem = append(mem, ctx.Memory[a])
		}
		if !check(r.MemoryWrite(ctx, 0)) {
			return
		}
		exe, err := r.Run(ctx, app.Labels, pc, mem, 0)
		if err != nil {
			res.WellFormed = true
			res.Err = err.Error()
			res.Regs = regsOf(ctx)
			res.Mem = ctx.Memory
			return
		}
		if exe.Return {
			break
		}
		lastW[1] = lastW[0]
		lastW[0] = risc.Zero
		if exe.RegisterChange {
			ctx.WriteRegister(exe)
			lastW[0] = exe.Register
		} else if exe.MemoryChange {
			ctx.WriteMemory(exe)
		}
		if exe.PcChange {
			res.Taken++
			pc = exe.NextPc
			if pc < 0 || pc%4 != 0 || pc/4 > n {
				res.Why = fmt.Sprintf("jump to %d, not an instruction address", pc)
				return
			}
		} else {
			pc += 4
		}
	}
	res.WellFormed = true
	res.Regs = regsOf(ctx)
	res.Regs[0] = 0
	res.Mem = ctx.Memory
	return
}

// ---- one execution on a real variant

type pxOutcome struct {
	Class  string // ok | wrong-registers | wrong-memory | error | unexpected-ok | wrong-error | panic | hang | spawn-panic | cycle-bound
	Detail string
	Cycles int
	Regs   [32]int32
	Mem    []int8
	Trace  []verifrt.Point
	VCycle int64 // cycle boundaries passed
}

// cycleBound is C07's bound: a fixed multiple of executed instructions times the
// slowest memory latency, plus a constant for the final write-back of the caches.
func cycleBound(steps int) int64 {
	return 309 * int64(8*steps+120)
}

func pxExec(cfg *pxConfig, text string, in *pxInit, ref *refResult, explore bool, prefix []int, onCycle func(vm vmIface)) (out pxOutcome) {
	app, err := risc.Parse(text)
	if err != nil {
		out.Class, out.Detail = "parse-error", err.Error()
		return
	}
	vm := cfg.New(pxMemSize)
	in.apply(vm.Context())
	return pxExecOn(vm, app, ref, explore, prefix, onCycle)
}

// pxExecOn runs an already parsed application on an already built (and
// initialised) machine.
func pxExecOn(vm vmIface, app risc.Application, ref *refResult, explore bool, prefix []int, onCycle func(vm vmIface)) (out pxOutcome) {
	bound := cycleBound(ref.Steps)
	verifrt.Begin(bound, 2_000_000, 400_000_000, explore, prefix)
	if onCycle != nil {
		verifrt.OnCycle = func() { onCycle(vm) }
	}
	defer func() {
		out.VCycle = verifrt.Cycles
		out.Trace = append([]verifrt.Point(nil), verifrt.Trace...)
		sf := verifrt.SpawnFailure()
		verifrt.End()
		if r := recover(); r != nil {
			if a, ok := r.(verifrt.Abort); ok {
				if a.Reason == "replay-divergence" {
					out.Class = "replay-divergence"
				} else {
					out.Class = "hang"
				}
				out.Detail = a.Error()
			} else {
				out.Class = "panic"
				out.Detail = trunc(fmt.Sprint(r), 160)
			}
			return
		}
		if sf != "" && out.Class == "ok" {
			out.Class, out.Detail = "spawn-panic", sf
		}
	}()
	cycles, rerr := vm.Run(app)
	out.Cycles = cycles
	if rerr != nil {
		if ref.Err != "" {
			out.Class = "ok" // a defined error reported as an error value
			return
		}
		out.Class, out.Detail = "error", rerr.Error()
		return
	}
	if ref.Err != "" {
		out.Class, out.Detail = "unexpected-ok", fmt.Sprintf("run returned without error, reference reaches %q", ref.Err)
		return
	}
	ctx := vm.Context()
	out.Regs = regsOf(ctx)
	out.Regs[0] = 0
	out.Mem = ctx.Memory
	out.Class = "ok"
	for r := 1; r < 32; r++ {
		if out.Regs[r] != ref.Regs[r] {
			out.Class = "wrong-registers"
			out.Detail = fmt.Sprintf("%v=%d, sequential result %d", risc.RegisterType(r), out.Regs[r], ref.Regs[r])
			return
		}
	}
	for i := range ref.Mem {
		if out.Mem[i] != ref.Mem[i] {
			out.Class = "wrong-memory"
			out.Detail = fmt.Sprintf("mem[%d]=%d, sequential result %d", i, out.Mem[i], ref.Mem[i])
			return
		}
	}
	if int64(cycles) > bound {
		out.Class, out.Detail = "cycle-bound", fmt.Sprintf("%d cycles for %d executed instructions exceeds the bound %d", cycles, ref.Steps, bound)
	}
	return
}

func trunc(s string, n int) string {
	if len(s) > n {
		return s[:n] + "..."
	}
	return s
}

type pxCase struct {
	Cfg     string `json:"cfg"`
	Prog    string `json:"prog"`
	Init    string `json:"init"`
	Choices []int  `json:"choices,omitempty"`
}

// ---- program enumeration helpers

// seqs enumerates all sequences of length exactly n over alphabet indices.
func seqs(alpha int, n int, f func(idx []int)) {
	idx := make([]int, n)
	for {
		f(idx)
		k := n - 1
		for k >= 0 {
			idx[k]++
			if idx[k] < alpha {
				break
			}
			idx[k] = 0
			k--
		}
		if k < 0 {
			return
		}
	}
}

func joinProg(lines []string) string { return strings.Join(lines, "\n") + "\n" }

func sortedKeys(m map[string]int64) []string {
	var ks []string
	for k := range m {
		ks = append(ks, k)
	}
	sort.Strings(ks)
	return ks
}
