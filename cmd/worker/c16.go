package main

import (
	"encoding/binary"
	"encoding/json"
	"fmt"

	rbytes "github.com/teivah/majorana/common/bytes"
	"github.com/teivah/majorana/risc"
)

// C16 — word encoding is a little-endian bijection on all 32-bit values.
//
// IX, complete in the thorough tier: every int32 n is split with
// BytesFromLowBits and compared byte-for-byte with encoding/binary's
// little-endian encoding (byte i = bits 8i..8i+7), reassembled with
// I32FromBytes and compared with n. Because int32 <-> byte quadruple is a
// bijection, enumerating all n also enumerates all 2^32 quadruples q, for each
// of which I32FromBytes(q) and BytesFromLowBits(I32FromBytes(q)) == q are
// checked against the same independent oracle.

type c16Case struct {
	N int32 `json:"n"`
}

func c16One(n int32) (string, string) {
	var want [4]byte
	binary.LittleEndian.PutUint32(want[:], uint32(n))
	got := rbytes.BytesFromLowBits(n)
	for i := 0; i < 4; i++ {
		if byte(got[i]) != want[i] {
			return "wrong-split", fmt.Sprintf("BytesFromLowBits(%#x)=%v, want byte %d = %#x", uint32(n), got, i, want[i])
		}
	}
	// quadruple direction (independent of the split above)
	q := [4]int8{int8(want[0]), int8(want[1]), int8(want[2]), int8(want[3])}
	v := rbytes.I32FromBytes(q[0], q[1], q[2], q[3])
	if v != n {
		return "wrong-join", fmt.Sprintf("I32FromBytes(%v)=%#x, want %#x", q, uint32(v), uint32(n))
	}
	back := rbytes.BytesFromLowBits(v)
	if back != q {
		return "wrong-roundtrip", fmt.Sprintf("BytesFromLowBits(I32FromBytes(%v))=%v", q, back)
	}
	// storing the word and loading it back through the instruction layer
	c16Ctx.Registers[risc.T0] = n
	exe, err := c16Sw.Run(c16Ctx, nil, 0, nil, 0)
	if err != nil || !exe.MemoryChange || len(exe.MemoryChanges) != 4 {
		return "wrong-store", fmt.Sprintf("sw of %#x: %v %+v", uint32(n), err, exe)
	}
	var mem [4]int8
	for i := int32(0); i < 4; i++ {
		b, ok := exe.MemoryChanges[i]
		if !ok || byte(b) != want[i] {
			return "wrong-store", fmt.Sprintf("sw of %#x writes %v, want byte %d = %#x", uint32(n), exe.MemoryChanges, i, want[i])
		}
		mem[i] = b
	}
	lexe, err := c16Lw.Run(c16Ctx, nil, 4, mem[:], 0)
	if err != nil || !lexe.RegisterChange || lexe.Register != risc.T1 || lexe.RegisterValue != n {
		return "wrong-load", fmt.Sprintf("lw of the bytes stored for %#x returns %#x", uint32(n), uint32(lexe.RegisterValue))
	}
	return "ok", ""
}

var (
	c16Ctx = risc.NewContext(false, 16, false)
	c16Sw  risc.InstructionRunner
	c16Lw  risc.InstructionRunner
)

func init() {
	app, err := risc.Parse("sw t0, 0(zero)\nlw t1, 0(zero)")
	if err != nil {
		panic(err)
	}
	c16Sw, c16Lw = app.Instructions[0], app.Instructions[1]
}

func init() {
	register("C16", &Check{
		Shards: func(tier string) int { return 64 },
		Run: func(c *RunCtx) {
			c.Sum.Rule = "IX: every int32 n of the tier's domain; split, join and round trip compared with encoding/binary little-endian, and the word stored by `sw` (Run) and loaded back by `lw` (Run) unchanged; every value is enumerated once; a case is non-trivial when n has at least two different bytes (so byte order is observable); states = values enumerated, transitions = calls into common/bytes"
			reported := 0
			one := func(n int32) {
				c.Sum.Evaluations++
				c.Sum.Transitions += 5
				u := uint32(n)
				if byte(u) != byte(u>>8) || byte(u) != byte(u>>16) || byte(u) != byte(u>>24) {
					c.Sum.Nontrivial++
				}
				class, detail := c16One(n)
				if class != "ok" {
					c.Outcome(class)
					if reported < 5 {
						reported++
						c.Fail("bytes/"+class, class, c16Case{n}, detail)
					}
				}
			}
			if c.Thorough() {
				// all 2^32 values, contiguous ranges per shard
				per := uint64(1<<32) / uint64(c.Of)
				lo := uint64(c.Shard) * per
				hi := lo + per
				if c.Shard == c.Of-1 {
					hi = 1 << 32
				}
				for x := lo; x < hi; x++ {
					one(int32(uint32(x)))
				}
				b := rbytes.BytesFromLowBits(int32(uint32(lo + 0x01020304)))
				c.Sample(map[string]any{"n": int32(uint32(lo + 0x01020304)), "bytes": []int8{b[0], b[1], b[2], b[3]}, "shard_range": []uint64{lo, hi - 1}})
			} else {
				// one byte pinned to {0x00,0x80,0xff}, the other three free: 4*3*2^24 values
				item := 0
				for pos := 0; pos < 4; pos++ {
					for _, pin := range []uint32{0x00, 0x80, 0xff} {
						for hiByte := uint32(0); hiByte < 256; hiByte++ {
							// work item = (pos, pin, one free byte) -> 2^16 values
							if !c.Mine(item) {
								item++
								continue
							}
							item++
							for rest := uint32(0); rest < 1<<16; rest++ {
								free := hiByte<<16 | rest
								// insert pin at byte position pos
								low := free & ((1 << (8 * pos)) - 1)
								high := free >> (8 * pos)
								v := low | pin<<(8*pos) | high<<(8*(pos+1))
								// count every value once: only in the group of its lowest pinned byte
								dup := false
								for q := 0; q < pos; q++ {
									if b := byte(v >> (8 * q)); b == 0x00 || b == 0x80 || b == 0xff {
										dup = true
									}
								}
								if dup {
									continue
								}
								if rest == 0x1234 && hiByte == 0x56 {
									b := rbytes.BytesFromLowBits(int32(v))
									c.Sample(map[string]any{"n": int32(v), "hex": fmt.Sprintf("%#08x", v), "bytes": []int8{b[0], b[1], b[2], b[3]}})
								}
								one(int32(v))
							}
						}
					}
				}
				c.Cap("quick tier enumerates 4*3*2^24 values (one byte pinned); the thorough tier enumerates all 2^32")
			}
			c.Sum.States = c.Sum.Evaluations
			c.Sum.Validated = c.Sum.Evaluations
			c.Outcome("ok")
			c.Sum.Outcomes["ok"] = c.Sum.Evaluations - int64(reported)
			c.Assume("encoding/binary.LittleEndian is the oracle for byte i = bits 8i..8i+7")
		},
		Replay: func(prop string, cs json.RawMessage) (string, string) {
			var k c16Case
			json.Unmarshal(cs, &k)
			return guard(func() (string, string) { return c16One(k.N) })
		},
	})
}
