// worker is the instrumented process that explores one shard of one check.
// It is always built by `vcheck` with `-tags verif -overlay <generated>` from
// /repo's current working tree; it cannot be built without the overlay
// (it imports the injected runtime package).
package main

import (
	"bufio"
	"bytes"
	"crypto/sha256"
	"encoding/hex"
	"encoding/json"
	"flag"
	"fmt"
	"io"
	"os"
	"sort"
	"strings"
	"time"

	"verif/internal/proto"
)

// RunCtx is what a check's Run function gets.
type RunCtx struct {
	Prop     string
	Tier     string
	Shard    int
	Of       int
	Seed     int
	Deadline time.Time

	out      *bufio.Writer
	enc      *json.Encoder
	Sum      proto.Summary
	failSeen map[string]bool
	nFails   int
}

// Mine reports whether work item i belongs to this shard.
func (c *RunCtx) Mine(i int) bool {
	return (i+c.Seed)%c.Of == c.Shard
}

func (c *RunCtx) Thorough() bool { return c.Tier == "thorough" }

func caseID(prop, class string, cs any) (string, json.RawMessage) {
	b, err := json.Marshal(cs)
	if err != nil {
		panic(err)
	}
	h := sha256.Sum256([]byte(prop + "\x00" + class + "\x00" + string(b)))
	return hex.EncodeToString(h[:8]), b
}

// Fail reports one failing case. Identity = hash(property, class, canonical case).
func (c *RunCtx) Fail(group, class string, cs any, detail string) {
	id, raw := caseID(c.Prop, class, cs)
	if c.failSeen[id] {
		return
	}
	c.failSeen[id] = true
	c.nFails++
	c.enc.Encode(proto.Fail{K: "fail", Prop: c.Prop, ID: id, Group: group, Class: class, Case: raw, Detail: detail})
}

func (c *RunCtx) Outcome(name string) { c.Sum.Outcomes[name]++ }

func (c *RunCtx) Sample(s any) {
	if len(c.Sum.Samples) < 4 {
		c.Sum.Samples = append(c.Sum.Samples, s)
	}
}

func (c *RunCtx) Cap(s string) {
	for _, x := range c.Sum.Caps {
		if x == s {
			return
		}
	}
	c.Sum.Caps = append(c.Sum.Caps, s)
	c.Sum.Exhaustive = false
}

func (c *RunCtx) Assume(s string) {
	for _, x := range c.Sum.Assumptions {
		if x == s {
			return
		}
	}
	c.Sum.Assumptions = append(c.Sum.Assumptions, s)
}

func (c *RunCtx) AddExtra(k string, v float64) {
	old, _ := c.Sum.Extra[k].(float64)
	c.Sum.Extra[k] = old + v
}

func (c *RunCtx) MaxExtra(k string, v float64) {
	old, ok := c.Sum.Extra[k].(float64)
	if !ok || v > old {
		c.Sum.Extra[k] = v
	}
}

// Check is one registered property check.
type Check struct {
	// Shards returns the number of worker processes this check can use.
	Shards func(tier string) int
	Run    func(c *RunCtx)
	// Replay re-executes one recorded case and returns the observed class
	// ("ok" when the case passes) and a human-readable detail.
	Replay func(prop string, cs json.RawMessage) (class string, detail string)
}

var checks = map[string]*Check{}

func register(name string, c *Check) { checks[name] = c }

func main() {
	if len(os.Args) < 2 {
		fmt.Println("usage: worker run|replay|shards|list ...")
		os.Exit(2)
	}
	switch os.Args[1] {
	case "list":
		var names []string
		for n := range checks {
			names = append(names, n)
		}
		sort.Strings(names)
		for _, n := range names {
			fmt.Println(n)
		}
	case "shards":
		fs := flag.NewFlagSet("shards", flag.ExitOnError)
		tier := fs.String("tier", "quick", "")
		fs.Parse(os.Args[3:])
		ck := checks[os.Args[2]]
		if ck == nil {
			os.Exit(3)
		}
		fmt.Println(ck.Shards(*tier))
	case "run":
		prop := os.Args[2]
		fs := flag.NewFlagSet("run", flag.ExitOnError)
		tier := fs.String("tier", "quick", "")
		shard := fs.Int("shard", 0, "")
		of := fs.Int("of", 1, "")
		seed := fs.Int("seed", 0, "")
		fs.Parse(os.Args[3:])
		ck := checks[prop]
		if ck == nil {
			fmt.Fprintln(os.Stderr, "unknown check", prop)
			os.Exit(3)
		}
		w := bufio.NewWriterSize(os.Stdout, 1<<16)
		c := &RunCtx{Prop: prop, Tier: *tier, Shard: *shard, Of: *of, Seed: *seed, out: w, enc: json.NewEncoder(w), failSeen: map[string]bool{}}
		c.Sum = proto.Summary{K: "sum", Outcomes: map[string]int64{}, Exhaustive: true, Extra: map[string]any{}}
		ck.Run(c)
		c.enc.Encode(c.Sum)
		w.Flush()
	case "fresh":
		// one execution in a brand-new process (C08 histories): worker fresh <cfg> <init> <program>
		cfg, in := pxConfigByName(os.Args[2]), pxInitByID(os.Args[3])
		ref := refRun(os.Args[4], in)
		if ref.Steps < 20 {
			ref.Steps = 20
		}
		out := pxExec(cfg, os.Args[4], in, &ref, false, nil, nil)
		json.NewEncoder(os.Stdout).Encode(freshResult{Digest: digest(&out), Class: out.Class, Cycles: out.Cycles})
	case "px":
		// debugging aid: worker px <init> <program with \n escapes> [cfg-prefix]
		in := pxInitByID(os.Args[2])
		text := strings.ReplaceAll(os.Args[3], "\\n", "\n") + "\n"
		ref := refRun(text, in)
		fmt.Printf("reference: wellformed=%v %s err=%q steps=%d regs t0=%d t1=%d t2=%d ra=%d mem[0..7]=%v mem[64..67]=%v mem[128..131]=%v\n", ref.WellFormed, ref.Why, ref.Err, ref.Steps,
			ref.Regs[5], ref.Regs[6], ref.Regs[7], ref.Regs[1], memSlice(ref.Mem, 0, 8), memSlice(ref.Mem, 64, 68), memSlice(ref.Mem, 128, 132))
		for i := range pxConfigs {
			cfg := &pxConfigs[i]
			if len(os.Args) > 4 && !strings.HasPrefix(cfg.Name, os.Args[4]) {
				continue
			}
			out := pxExec(cfg, text, in, &ref, false, nil, nil)
			fmt.Printf("%-9s %-16s cycles=%-6d t0=%d t1=%d t2=%d ra=%d mem[0..7]=%v mem[64..67]=%v mem[128..131]=%v %s\n", cfg.Name, out.Class, out.Cycles,
				out.Regs[5], out.Regs[6], out.Regs[7], out.Regs[1], memSlice(out.Mem, 0, 8), memSlice(out.Mem, 64, 68), memSlice(out.Mem, 128, 132), out.Detail)
		}
	case "replay":
		in, _ := io.ReadAll(os.Stdin)
		var rp proto.Replay
		if err := json.Unmarshal(in, &rp); err != nil {
			fmt.Fprintln(os.Stderr, err)
			os.Exit(2)
		}
		ck := checks[rp.Property]
		if ck == nil || ck.Replay == nil {
			fmt.Fprintln(os.Stderr, "no replay for", rp.Property)
			os.Exit(3)
		}
		class, detail := ck.Replay(rp.Property, rp.Case)
		var compact bytes.Buffer
		json.Compact(&compact, rp.Case)
		h := sha256.Sum256([]byte(rp.Property + "\x00" + class + "\x00" + compact.String()))
		id := hex.EncodeToString(h[:8])
		json.NewEncoder(os.Stdout).Encode(proto.ReplayResult{K: "replay", Reproduced: class != "ok" && class == rp.Class, Class: class, ID: id, Detail: detail})
	}
}

// guard runs f and converts a panic into (class "panic", message).
func guard(f func() (string, string)) (class, detail string) {
	defer func() {
		if r := recover(); r != nil {
			class, detail = "panic", fmt.Sprint(r)
		}
	}()
	return f()
}

func memSlice(m []int8, a, b int) []int8 {
	if len(m) < b {
		return nil
	}
	return m[a:b]
}
