package main

import (
	"encoding/json"
	"fmt"
	"os"
	"path/filepath"
	"reflect"
	"strconv"
	"strings"

	"github.com/teivah/majorana/risc"
)

// C11 — the assembler front end is total and resolves labels.
//
// IX part A: every string of <= N tokens over a 20-token alphabet.
// IX part B: every single-edit mutant and every metamorphic variant of a set of
// well-formed programs (the repository's res/*.asm plus generated ones).
// Oracle: no panic; for accepted text an independent line classifier gives the
// instruction count and the label -> 4*index map; every instruction line whose
// operands the independent tokenizer can read must decode to the same
// instruction as its canonical rendering (whose meaning C02 checks against the
// RV32IM table); metamorphic variants parse to the same result.

var c11Tokens = []string{"addi", "lw", "sh", "beq", "j", "ret", "t0", "zero", "x", ",", " ", "\t", "(", ")", "0", "-1", "99999999999", ":", "#", "\n"}

type c11Case struct {
	Text string `json:"text"`
	Kind string `json:"kind"`
	Base string `json:"base,omitempty"`
}

var specRegs = func() map[string]risc.RegisterType {
	names := []string{"zero", "ra", "sp", "gp", "tp", "t0", "t1", "t2", "s0", "s1", "a0", "a1", "a2", "a3", "a4", "a5", "a6", "a7",
		"s2", "s3", "s4", "s5", "s6", "s7", "s8", "s9", "s10", "s11", "t3", "t4", "t5", "t6"}
	m := map[string]risc.RegisterType{}
	for i, n := range names {
		m[n] = risc.RegisterType(i)
		m["$"+n] = risc.RegisterType(i)
	}
	return m
}()

var specKinds = func() map[string]*c02Spec {
	m := map[string]*c02Spec{}
	for i := range c02Specs {
		m[c02Specs[i].mn] = &c02Specs[i]
	}
	return m
}()

type specLine struct {
	mnemonic string
	operands string
}

// specClassify is the independent reading of the line structure.
func specClassify(text string) (nInstr int, labelDefs map[string][]int32, lines []specLine) {
	labelDefs = map[string][]int32{}
	for _, raw := range strings.Split(text, "\n") {
		line := strings.TrimSpace(raw)
		if line == "" || line[0] == '#' {
			continue
		}
		if !strings.Contains(line, " ") && strings.HasSuffix(line, ":") {
			name := line[:len(line)-1]
			labelDefs[name] = append(labelDefs[name], int32(4*nInstr))
			continue
		}
		mn, rest := line, ""
		if i := strings.Index(line, " "); i >= 0 {
			mn, rest = line[:i], line[i+1:]
		}
		if i := strings.Index(rest, "#"); i >= 0 {
			rest = rest[:i]
		}
		lines = append(lines, specLine{strings.ToLower(mn), rest})
		nInstr++
	}
	return
}

// specCanonical renders the instruction the operands name, when the
// independent tokenizer can read them; ok=false means "not readable, skip".
func specCanonical(l specLine) (string, bool) {
	sp := specKinds[l.mnemonic]
	if sp == nil {
		return "", false
	}
	parts := strings.Split(l.operands, ",")
	for i := range parts {
		parts[i] = strings.TrimSpace(parts[i])
	}
	reg := func(s string) (string, bool) {
		r, ok := specRegs[s]
		if !ok {
			return "", false
		}
		return regNameFull(r), true
	}
	imm := func(s string) (string, bool) {
		v, err := strconv.ParseInt(s, 10, 32)
		if err != nil {
			return "", false
		}
		return strconv.FormatInt(v, 10), true
	}
	label := func(s string) (string, bool) {
		if s == "" || strings.ContainsAny(s, " \t(),#:") {
			return "", false
		}
		return s, true
	}
	offreg := func(s string) (string, string, bool) {
		i := strings.Index(s, "(")
		if i < 0 || !strings.HasSuffix(s, ")") || strings.Count(s, "(") != 1 || strings.Count(s, ")") != 1 {
			return "", "", false
		}
		o, ok1 := imm(strings.TrimSpace(s[:i]))
		r, ok2 := reg(strings.TrimSpace(s[i+1 : len(s)-1]))
		return o, r, ok1 && ok2
	}
	need := func(n int) bool { return len(parts) == n }
	switch sp.kind {
	case kR:
		if !need(3) {
			return "", false
		}
		a, ok1 := reg(parts[0])
		b, ok2 := reg(parts[1])
		c, ok3 := reg(parts[2])
		return fmt.Sprintf("%s %s, %s, %s", sp.mn, a, b, c), ok1 && ok2 && ok3
	case kI, kJalr:
		if !need(3) {
			return "", false
		}
		a, ok1 := reg(parts[0])
		b, ok2 := reg(parts[1])
		c, ok3 := imm(parts[2])
		return fmt.Sprintf("%s %s, %s, %s", sp.mn, a, b, c), ok1 && ok2 && ok3
	case kU, kAuipc:
		if !need(2) {
			return "", false
		}
		a, ok1 := reg(parts[0])
		c, ok3 := imm(parts[1])
		return fmt.Sprintf("%s %s, %s", sp.mn, a, c), ok1 && ok3
	case kMv:
		if !need(2) {
			return "", false
		}
		a, ok1 := reg(parts[0])
		b, ok2 := reg(parts[1])
		return fmt.Sprintf("%s %s, %s", sp.mn, a, b), ok1 && ok2
	case kB2:
		if !need(3) {
			return "", false
		}
		a, ok1 := reg(parts[0])
		b, ok2 := reg(parts[1])
		c, ok3 := label(parts[2])
		return fmt.Sprintf("%s %s, %s, %s", sp.mn, a, b, c), ok1 && ok2 && ok3
	case kB1:
		if !need(2) {
			return "", false
		}
		a, ok1 := reg(parts[0])
		c, ok3 := label(parts[1])
		return fmt.Sprintf("%s %s, %s", sp.mn, a, c), ok1 && ok3
	case kJ:
		if !need(1) {
			return "", false
		}
		c, ok := label(parts[0])
		return "j " + c, ok
	case kJal:
		if !need(2) {
			return "", false
		}
		a, ok1 := reg(parts[0])
		c, ok3 := label(parts[1])
		return fmt.Sprintf("jal %s, %s", a, c), ok1 && ok3
	case kLoad, kStore:
		if !need(2) {
			return "", false
		}
		a, ok1 := reg(parts[0])
		o, r, ok2 := offreg(parts[1])
		return fmt.Sprintf("%s %s, %s(%s)", sp.mn, a, o, r), ok1 && ok2
	case kSh:
		if !need(3) {
			return "", false
		}
		a, ok1 := reg(parts[0])
		o, ok2 := imm(parts[1])
		r, ok3 := reg(parts[2])
		return fmt.Sprintf("sh %s, %s, %s", a, o, r), ok1 && ok2 && ok3
	case kNop, kRet:
		return sp.mn, strings.TrimSpace(l.operands) == ""
	}
	return "", false
}

var fullRegNames = []string{"zero", "ra", "sp", "gp", "tp", "t0", "t1", "t2", "s0", "s1", "a0", "a1", "a2", "a3", "a4", "a5", "a6", "a7",
	"s2", "s3", "s4", "s5", "s6", "s7", "s8", "s9", "s10", "s11", "t3", "t4", "t5", "t6"}

func regNameFull(r risc.RegisterType) string { return fullRegNames[int(r)] }

func safeParse(text string) (app risc.Application, err error, pan any) {
	defer func() {
		if r := recover(); r != nil {
			pan = r
		}
	}()
	app, err = risc.Parse(text)
	return
}

var canonCache = map[string]risc.InstructionRunner{}

func canonInstr(text string) (risc.InstructionRunner, bool) {
	if r, ok := canonCache[text]; ok {
		return r, r != nil
	}
	app, err, pan := safeParse(text)
	if err != nil || pan != nil || len(app.Instructions) != 1 {
		canonCache[text] = nil
		return nil, false
	}
	canonCache[text] = app.Instructions[0]
	return app.Instructions[0], true
}

// c11Check returns class ("ok" or a failure class), detail, and whether the text was accepted.
func c11Check(text string) (string, string, bool) {
	app, err, pan := safeParse(text)
	if pan != nil {
		return "panic", fmt.Sprint(pan), false
	}
	if err != nil {
		return "ok", "", false
	}
	n, defs, lines := specClassify(text)
	if len(app.Instructions) != n {
		return "wrong-instruction-count", fmt.Sprintf("%d instructions for %d instruction lines", len(app.Instructions), n), true
	}
	if len(app.Labels) != len(defs) {
		return "wrong-labels", fmt.Sprintf("labels %v, label lines define %v", app.Labels, defs), true
	}
	for name, addrs := range defs {
		got, ok := app.Labels[name]
		match := false
		for _, a := range addrs {
			if a == got {
				match = true
			}
		}
		if !ok || !match {
			return "wrong-labels", fmt.Sprintf("label %q = %d, defined before instruction offsets %v", name, got, addrs), true
		}
	}
	for i, l := range lines {
		canon, ok := specCanonical(l)
		if !ok {
			continue
		}
		want, ok := canonInstr(canon)
		if !ok {
			return "canonical-rejected", fmt.Sprintf("line %q accepted but its canonical form %q is not", l.mnemonic+" "+l.operands, canon), true
		}
		got := app.Instructions[i]
		got.Forward(risc.Forward{})
		if !reflect.DeepEqual(got, want) {
			return "wrong-operands", fmt.Sprintf("instruction %d (%q) decoded as %+v, canonical %q decodes as %+v", i, l.mnemonic+" "+l.operands, got, canon, want), true
		}
	}
	return "ok", "", true
}

func sameApp(a, b risc.Application) bool {
	if len(a.Instructions) != len(b.Instructions) || !reflect.DeepEqual(a.Labels, b.Labels) {
		return false
	}
	for i := range a.Instructions {
		if !reflect.DeepEqual(a.Instructions[i], b.Instructions[i]) {
			return false
		}
	}
	return true
}

func c11Bases() map[string]string {
	bases := map[string]string{}
	files, _ := filepath.Glob("/repo/res/*.asm")
	for _, f := range files {
		if b, err := os.ReadFile(f); err == nil {
			bases[filepath.Base(f)] = string(b)
		}
	}
	bases["gen-alu"] = "main:\n  addi t0, zero, 5\n  add t1, t0, t0\n  sub t2, t1, t0\n  slli t2, t2, 2\nend:\n  ret\n"
	bases["gen-mem"] = "  lw t0, 0(zero)\n  sw t0, 4(zero)\n  lb t1, 8(t0)\n  sb t1, -1(t2)\n  sh t1, 2, t2\n  lh t2, 2(zero)\n"
	bases["gen-branch"] = "start:\n  beq t0, t1, start\n  bnez t0, end\n  jal ra, end\n  jalr zero, ra, 0\n  j start\nend:\n  lui a0, 3\n  auipc a1, 1\n  li a2, -7\n  mv a3, a2\n  nop\n"
	return bases
}

func c11Run(c *RunCtx) {
	maxTok := 6
	if c.Thorough() {
		maxTok = 7
	}
	nt := len(c11Tokens)
	accepted := map[string]bool{}
	report := func(kind, base, text, class, detail string) {
		c.Outcome(class)
		if c.nFails < 2000 {
			c.Fail("parser/"+class, class, c11Case{Text: text, Kind: kind, Base: base}, detail)
		}
	}
	// ---- part A: all token strings; the first two tokens select the work item
	idx := make([]int, maxTok)
	var sb strings.Builder
	for length := 0; length <= maxTok; length++ {
		if length < 2 {
			// tiny strings: shard 0 only
			if c.Shard != 0 {
				continue
			}
		}
		for i := range idx {
			idx[i] = 0
		}
		for {
			mine := true
			if length >= 2 {
				mine = c.Mine(idx[0]*nt + idx[1])
			}
			if mine {
				sb.Reset()
				for i := 0; i < length; i++ {
					sb.WriteString(c11Tokens[idx[i]])
				}
				text := sb.String()
				c.Sum.Evaluations++
				class, detail, acc := c11Check(text)
				if acc {
					if !accepted[text] {
						accepted[text] = true
						if len(accepted)%5000 == 1 {
							c.Sample(map[string]any{"accepted_text": text, "tokens": length})
						}
					}
					c.Sum.Outcomes["accepted"]++
				} else if class == "ok" {
					c.Sum.Outcomes["rejected"]++
				}
				if class != "ok" {
					report("tokens", "", text, class, detail)
				}
			}
			// next
			k := length - 1
			if length >= 2 && !mine {
				// skip the whole subtree below (idx[0], idx[1])
				for j := 2; j < length; j++ {
					idx[j] = nt - 1
				}
			}
			for k >= 0 {
				idx[k]++
				if idx[k] < nt {
					break
				}
				idx[k] = 0
				k--
			}
			if k < 0 {
				break
			}
		}
	}
	// ---- part B: mutants and metamorphic variants of well-formed programs
	bases := c11Bases()
	var names []string
	for n := range bases {
		names = append(names, n)
	}
	sortStrings(names)
	item := 0
	for _, name := range names {
		base := bases[name]
		ref, err, pan := safeParse(base)
		if err != nil || pan != nil {
			if c.Shard == 0 {
				report("base", name, base, "base-rejected", fmt.Sprint(err, pan))
			}
			continue
		}
		toks := tokenize(base)
		mutant := func(kind, text string) {
			if !c.Mine(item) {
				item++
				return
			}
			item++
			c.Sum.Evaluations++
			class, detail, acc := c11Check(text)
			if acc {
				accepted[text] = true
				c.Sum.Outcomes["accepted"]++
			} else if class == "ok" {
				c.Sum.Outcomes["rejected"]++
			}
			if class != "ok" {
				report(kind, name, text, class, detail)
			}
		}
		for i := range toks {
			mutant("delete-token", strings.Join(append(append([]string{}, toks[:i]...), toks[i+1:]...), ""))
			mutant("duplicate-token", strings.Join(append(append(append([]string{}, toks[:i+1]...), toks[i]), toks[i+1:]...), ""))
			for _, ins := range []string{"(", ")", ",", ":", "#", "\t", "99999999999", "-"} {
				mutant("insert-"+ins, strings.Join(append(append(append([]string{}, toks[:i]...), ins), toks[i:]...), ""))
			}
			if len(toks[i]) > 1 {
				mutant("truncate-token", strings.Join(append(append(append([]string{}, toks[:i]...), toks[i][:len(toks[i])-1]), toks[i+1:]...), ""))
			}
		}
		// truncated text at every byte
		for i := 0; i <= len(base); i++ {
			mutant("truncate-text", base[:i])
		}
		// duplicate every label line somewhere later
		lines := strings.Split(base, "\n")
		for i, l := range lines {
			if strings.HasSuffix(strings.TrimSpace(l), ":") {
				for j := i + 1; j <= len(lines); j++ {
					dup := append(append(append([]string{}, lines[:j]...), l), lines[j:]...)
					mutant("duplicate-label", strings.Join(dup, "\n"))
				}
			}
		}
		// metamorphic variants: must parse to the same result
		variant := func(kind, text string) {
			if !c.Mine(item) {
				item++
				return
			}
			item++
			c.Sum.Evaluations++
			app, err, pan := safeParse(text)
			switch {
			case pan != nil:
				report(kind, name, text, "panic", fmt.Sprint(pan))
			case err != nil:
				report(kind, name, text, "variant-rejected", err.Error())
			case !sameApp(app, ref):
				report(kind, name, text, "variant-differs", fmt.Sprintf("%d instructions, labels %v; base: %d instructions, labels %v", len(app.Instructions), app.Labels, len(ref.Instructions), ref.Labels))
			default:
				c.Sum.Outcomes["variant-same"]++
				accepted[text] = true
			}
		}
		for i := 0; i <= len(lines); i++ {
			for _, ins := range []string{"", "   ", "\t", "# a comment", "  # addi t0, t0, 1", "#"} {
				v := append(append(append([]string{}, lines[:i]...), ins), lines[i:]...)
				variant("insert-blank-or-comment-line", strings.Join(v, "\n"))
			}
		}
		for i, l := range lines {
			if strings.TrimSpace(l) == "" {
				continue
			}
			for _, pre := range []string{"  ", "\t", " \t ", "        "} {
				v := append([]string{}, lines...)
				v[i] = pre + l
				variant("indent", strings.Join(v, "\n"))
				v[i] = l + pre
				variant("trailing-blanks", strings.Join(v, "\n"))
			}
			t := strings.TrimSpace(l)
			if !strings.HasSuffix(t, ":") && t[0] != '#' && strings.Contains(t, " ") {
				v := append([]string{}, lines...)
				v[i] = l + " # trailing comment"
				variant("trailing-comment", strings.Join(v, "\n"))
				v[i] = l + "#x"
				variant("trailing-comment", strings.Join(v, "\n"))
				// mnemonic case
				lead := l[:len(l)-len(strings.TrimLeft(l, " \t"))]
				sp := strings.Index(t, " ")
				v[i] = lead + strings.ToUpper(t[:sp]) + t[sp:]
				variant("mnemonic-case", strings.Join(v, "\n"))
				v[i] = lead + strings.ToUpper(t[:1]) + t[1:]
				variant("mnemonic-case", strings.Join(v, "\n"))
			}
		}
		variant("crlf-free-trailing-newlines", base+"\n\n\n")
	}
	c.Sum.Nontrivial = int64(len(accepted))
	c.Sum.States = c.Sum.Evaluations
	c.Sum.Transitions = c.Sum.Evaluations
	c.Sum.Validated = c.Sum.Evaluations
	c.Sum.Rule = fmt.Sprintf("IX: every string of <= %d tokens over the %d-token alphabet %q, plus every single-edit mutant (delete/duplicate/truncate a token, insert ( ) , : # tab huge-number, truncate the text at every byte, duplicate a label) and metamorphic variant (blank/comment lines, indentation, trailing blanks/comments, mnemonic case) of %d well-formed programs; non-trivial = distinct strings the parser accepted (their structure is then checked against the independent classifier)", maxTok, nt, c11Tokens, len(bases))
	c.Assume("a label line is a line without a space that ends with ':'; duplicate labels may resolve to any of their definitions")
	c.Assume("operand decoding is compared with the parse of the canonical rendering produced by an independent tokenizer; the meaning of canonical renderings is checked by C02")
}

func sortStrings(s []string) {
	for i := 1; i < len(s); i++ {
		for j := i; j > 0 && s[j] < s[j-1]; j-- {
			s[j], s[j-1] = s[j-1], s[j]
		}
	}
}

// tokenize splits text into maximal runs of word characters and single other characters.
func tokenize(s string) []string {
	var out []string
	cur := ""
	isWord := func(b byte) bool {
		return b == '_' || b == '-' || b == '$' || (b >= '0' && b <= '9') || (b >= 'a' && b <= 'z') || (b >= 'A' && b <= 'Z')
	}
	for i := 0; i < len(s); i++ {
		if isWord(s[i]) {
			cur += string(s[i])
			continue
		}
		if cur != "" {
			out = append(out, cur)
			cur = ""
		}
		out = append(out, string(s[i]))
	}
	if cur != "" {
		out = append(out, cur)
	}
	return out
}

func init() {
	register("C11", &Check{
		Shards: func(tier string) int { return 64 },
		Run:    c11Run,
		Replay: func(prop string, raw json.RawMessage) (string, string) {
			var k c11Case
			json.Unmarshal(raw, &k)
			if strings.HasPrefix(k.Kind, "insert-blank") || k.Kind == "indent" || k.Kind == "trailing-blanks" || k.Kind == "trailing-comment" || k.Kind == "mnemonic-case" || k.Kind == "crlf-free-trailing-newlines" {
				base := c11Bases()[k.Base]
				ref, _, _ := safeParse(base)
				app, err, pan := safeParse(k.Text)
				switch {
				case pan != nil:
					return "panic", fmt.Sprint(pan)
				case err != nil:
					return "variant-rejected", err.Error()
				case !sameApp(app, ref):
					return "variant-differs", ""
				}
				return "ok", ""
			}
			class, detail, _ := c11Check(k.Text)
			return class, detail
		},
	})
}
