package main

import (
	"encoding/json"
	"fmt"
	"math/big"
	"os"
	"path/filepath"
	"reflect"
	"strconv"
	"strings"

	"github.com/teivah/majorana/risc"
)

// C11 — the assembler front end is total and resolves labels.
//
// IX part A: every string of <= N tokens over a 20-token alphabet.
// IX part B: every single-edit mutant and every metamorphic variant of a set of
// well-formed programs (the repository's res/*.asm plus generated ones).
// Oracle: no panic; for accepted text an independent line classifier gives the
// instruction count and the label -> 4*index map; every instruction line whose
// operands the independent tokenizer can read must decode to the same
// instruction as its canonical rendering (whose meaning C02 checks against the
// RV32IM table); metamorphic variants parse to the same result.

var c11Tokens = []string{"addi", "lw", "sh", "beq", "j", "ret", "t0", "zero", "x", ",", " ", "\t", "(", ")", "0", "-1", "99999999999", ":", "#", "\n"}

type c11Case struct {
	Text string `json:"text"`
	Kind string `json:"kind"`
	Base string `json:"base,omitempty"`
	// operand probes (part C)
	Mn      string `json:"mnemonic,omitempty"`
	Slot    string `json:"slot,omitempty"`
	Operand string `json:"operand,omitempty"`
	// long-line variants (part B): the text is rebuilt from (base, line, size)
	Line int `json:"line,omitempty"`
	Size int `json:"size,omitempty"`
}

var specRegs = func() map[string]risc.RegisterType {
	names := []string{"zero", "ra", "sp", "gp", "tp", "t0", "t1", "t2", "s0", "s1", "a0", "a1", "a2", "a3", "a4", "a5", "a6", "a7",
		"s2", "s3", "s4", "s5", "s6", "s7", "s8", "s9", "s10", "s11", "t3", "t4", "t5", "t6"}
	m := map[string]risc.RegisterType{}
	for i, n := range names {
		m[n] = risc.RegisterType(i)
		m["$"+n] = risc.RegisterType(i)
	}
	return m
}()

var specKinds = func() map[string]*c02Spec {
	m := map[string]*c02Spec{}
	for i := range c02Specs {
		m[c02Specs[i].mn] = &c02Specs[i]
	}
	return m
}()

type specLine struct {
	mnemonic string
	operands string
}

// specClassify is the independent reading of the line structure.
func specClassify(text string) (nInstr int, labelDefs map[string][]int32, lines []specLine) {
	labelDefs = map[string][]int32{}
	for _, raw := range strings.Split(text, "\n") {
		line := strings.TrimSpace(raw)
		if line == "" || line[0] == '#' {
			continue
		}
		if !strings.Contains(line, " ") && strings.HasSuffix(line, ":") {
			name := line[:len(line)-1]
			labelDefs[name] = append(labelDefs[name], int32(4*nInstr))
			continue
		}
		mn, rest := line, ""
		if i := strings.Index(line, " "); i >= 0 {
			mn, rest = line[:i], line[i+1:]
		}
		if i := strings.Index(rest, "#"); i >= 0 {
			rest = rest[:i]
		}
		lines = append(lines, specLine{strings.ToLower(mn), rest})
		nInstr++
	}
	return
}

// specCanonical renders the instruction the operands name, when the
// independent tokenizer can read them; ok=false means "not readable, skip".
func specCanonical(l specLine) (string, bool) {
	sp := specKinds[l.mnemonic]
	if sp == nil {
		return "", false
	}
	parts := strings.Split(l.operands, ",")
	for i := range parts {
		parts[i] = strings.TrimSpace(parts[i])
	}
	reg := func(s string) (string, bool) {
		r, ok := specRegs[s]
		if !ok {
			return "", false
		}
		return regNameFull(r), true
	}
	imm := func(s string) (string, bool) {
		v, err := strconv.ParseInt(s, 10, 32)
		if err != nil {
			return "", false
		}
		return strconv.FormatInt(v, 10), true
	}
	label := func(s string) (string, bool) {
		if s == "" || strings.ContainsAny(s, " \t(),#:") {
			return "", false
		}
		return s, true
	}
	offreg := func(s string) (string, string, bool) {
		i := strings.Index(s, "(")
		if i < 0 || !strings.HasSuffix(s, ")") || strings.Count(s, "(") != 1 || strings.Count(s, ")") != 1 {
			return "", "", false
		}
		o, ok1 := imm(strings.TrimSpace(s[:i]))
		r, ok2 := reg(strings.TrimSpace(s[i+1 : len(s)-1]))
		return o, r, ok1 && ok2
	}
	need := func(n int) bool { return len(parts) == n }
	switch sp.kind {
	case kR:
		if !need(3) {
			return "", false
		}
		a, ok1 := reg(parts[0])
		b, ok2 := reg(parts[1])
		c, ok3 := reg(parts[2])
		return fmt.Sprintf("%s %s, %s, %s", sp.mn, a, b, c), ok1 && ok2 && ok3
	case kI, kJalr:
		if !need(3) {
			return "", false
		}
		a, ok1 := reg(parts[0])
		b, ok2 := reg(parts[1])
		c, ok3 := imm(parts[2])
		return fmt.Sprintf("%s %s, %s, %s", sp.mn, a, b, c), ok1 && ok2 && ok3
	case kU, kAuipc:
		if !need(2) {
			return "", false
		}
		a, ok1 := reg(parts[0])
		c, ok3 := imm(parts[1])
		return fmt.Sprintf("%s %s, %s", sp.mn, a, c), ok1 && ok3
	case kMv:
		if !need(2) {
			return "", false
		}
		a, ok1 := reg(parts[0])
		b, ok2 := reg(parts[1])
		return fmt.Sprintf("%s %s, %s", sp.mn, a, b), ok1 && ok2
	case kB2:
		if !need(3) {
			return "", false
		}
		a, ok1 := reg(parts[0])
		b, ok2 := reg(parts[1])
		c, ok3 := label(parts[2])
		return fmt.Sprintf("%s %s, %s, %s", sp.mn, a, b, c), ok1 && ok2 && ok3
	case kB1:
		if !need(2) {
			return "", false
		}
		a, ok1 := reg(parts[0])
		c, ok3 := label(parts[1])
		return fmt.Sprintf("%s %s, %s", sp.mn, a, c), ok1 && ok3
	case kJ:
		if !need(1) {
			return "", false
		}
		c, ok := label(parts[0])
		return "j " + c, ok
	case kJal:
		if !need(2) {
			return "", false
		}
		a, ok1 := reg(parts[0])
		c, ok3 := label(parts[1])
		return fmt.Sprintf("jal %s, %s", a, c), ok1 && ok3
	case kLoad, kStore:
		if !need(2) {
			return "", false
		}
		a, ok1 := reg(parts[0])
		o, r, ok2 := offreg(parts[1])
		return fmt.Sprintf("%s %s, %s(%s)", sp.mn, a, o, r), ok1 && ok2
	case kSh:
		if !need(3) {
			return "", false
		}
		a, ok1 := reg(parts[0])
		o, ok2 := imm(parts[1])
		r, ok3 := reg(parts[2])
		return fmt.Sprintf("sh %s, %s, %s", a, o, r), ok1 && ok2 && ok3
	case kNop, kRet:
		return sp.mn, strings.TrimSpace(l.operands) == ""
	}
	return "", false
}

var fullRegNames = []string{"zero", "ra", "sp", "gp", "tp", "t0", "t1", "t2", "s0", "s1", "a0", "a1", "a2", "a3", "a4", "a5", "a6", "a7",
	"s2", "s3", "s4", "s5", "s6", "s7", "s8", "s9", "s10", "s11", "t3", "t4", "t5", "t6"}

func regNameFull(r risc.RegisterType) string { return fullRegNames[int(r)] }

func safeParse(text string) (app risc.Application, err error, pan any) {
	defer func() {
		if r := recover(); r != nil {
			pan = r
		}
	}()
	app, err = risc.Parse(text)
	return
}

var canonCache = map[string]risc.InstructionRunner{}

func canonInstr(text string) (risc.InstructionRunner, bool) {
	if r, ok := canonCache[text]; ok {
		return r, r != nil
	}
	app, err, pan := safeParse(text)
	if err != nil || pan != nil || len(app.Instructions) != 1 {
		canonCache[text] = nil
		return nil, false
	}
	canonCache[text] = app.Instructions[0]
	return app.Instructions[0], true
}

// c11Check returns class ("ok" or a failure class), detail, and whether the text was accepted.
func c11Check(text string) (string, string, bool) {
	app, err, pan := safeParse(text)
	if pan != nil {
		return "panic", fmt.Sprint(pan), false
	}
	if err != nil {
		return "ok", "", false
	}
	n, defs, lines := specClassify(text)
	if len(app.Instructions) != n {
		return "wrong-instruction-count", fmt.Sprintf("%d instructions for %d instruction lines", len(app.Instructions), n), true
	}
	if len(app.Labels) != len(defs) {
		return "wrong-labels", fmt.Sprintf("labels %v, label lines define %v", app.Labels, defs), true
	}
	for name, addrs := range defs {
		got, ok := app.Labels[name]
		match := false
		for _, a := range addrs {
			if a == got {
				match = true
			}
		}
		if !ok || !match {
			return "wrong-labels", fmt.Sprintf("label %q = %d, defined before instruction offsets %v", name, got, addrs), true
		}
	}
	for i, l := range lines {
		canon, ok := specCanonical(l)
		if !ok {
			continue
		}
		want, ok := canonInstr(canon)
		if !ok {
			return "canonical-rejected", fmt.Sprintf("line %q accepted but its canonical form %q is not", l.mnemonic+" "+l.operands, canon), true
		}
		got := app.Instructions[i]
		got.Forward(risc.Forward{})
		if !reflect.DeepEqual(got, want) {
			return "wrong-operands", fmt.Sprintf("instruction %d (%q) decoded as %+v, canonical %q decodes as %+v", i, l.mnemonic+" "+l.operands, got, canon, want), true
		}
	}
	return "ok", "", true
}

// c11Variant: text must parse to the same result as ref.
func c11Variant(ref risc.Application, text string) (string, string) {
	app, err, pan := safeParse(text)
	switch {
	case pan != nil:
		return "panic", fmt.Sprint(pan)
	case err != nil:
		return "variant-rejected", err.Error()
	case !sameApp(app, ref):
		return "variant-differs", fmt.Sprintf("%d instructions, labels %v; base: %d instructions, labels %v", len(app.Instructions), app.Labels, len(ref.Instructions), ref.Labels)
	}
	return "ok", ""
}

func c11LongText(base, kind string, line, size int) string {
	lines := strings.Split(base, "\n")
	switch kind {
	case "long-comment-line":
		v := append(append(append([]string{}, lines[:line]...), "#"+strings.Repeat("x", size)), lines[line:]...)
		return strings.Join(v, "\n")
	case "long-indent":
		lines[line] = strings.Repeat(" ", size) + lines[line]
	case "long-trailing-blanks":
		lines[line] = lines[line] + strings.Repeat(" ", size)
	case "long-trailing-comment":
		lines[line] = lines[line] + " # " + strings.Repeat("y", size)
	}
	return strings.Join(lines, "\n")
}

func sameApp(a, b risc.Application) bool {
	if len(a.Instructions) != len(b.Instructions) || !reflect.DeepEqual(a.Labels, b.Labels) {
		return false
	}
	for i := range a.Instructions {
		if !reflect.DeepEqual(a.Instructions[i], b.Instructions[i]) {
			return false
		}
	}
	return true
}

func c11Bases() map[string]string {
	bases := map[string]string{}
	files, _ := filepath.Glob("/repo/res/*.asm")
	for _, f := range files {
		if b, err := os.ReadFile(f); err == nil {
			bases[filepath.Base(f)] = string(b)
		}
	}
	bases["gen-alu"] = "main:\n  addi t0, zero, 5\n  add t1, t0, t0\n  sub t2, t1, t0\n  slli t2, t2, 2\nend:\n  ret\n"
	bases["gen-mem"] = "  lw t0, 0(zero)\n  sw t0, 4(zero)\n  lb t1, 8(t0)\n  sb t1, -1(t2)\n  sh t1, 2, t2\n  lh t2, 2(zero)\n"
	bases["gen-branch"] = "start:\n  beq t0, t1, start\n  bnez t0, end\n  jal ra, end\n  jalr zero, ra, 0\n  j start\nend:\n  lui a0, 3\n  auipc a1, 1\n  li a2, -7\n  mv a3, a2\n  nop\n"
	return bases
}

func c11Run(c *RunCtx) {
	maxTok := 6
	if c.Thorough() {
		maxTok = 7
	}
	nt := len(c11Tokens)
	accepted := map[string]bool{}
	report := func(kind, base, text, class, detail string) {
		c.Outcome(class)
		if c.nFails < 2000 {
			c.Fail("parser/"+class, class, c11Case{Text: text, Kind: kind, Base: base}, detail)
		}
	}
	// ---- part A: all token strings; the first two tokens select the work item
	idx := make([]int, maxTok)
	var sb strings.Builder
	for length := 0; length <= maxTok; length++ {
		if length < 2 {
			// tiny strings: shard 0 only
			if c.Shard != 0 {
				continue
			}
		}
		for i := range idx {
			idx[i] = 0
		}
		for {
			mine := true
			if length >= 2 {
				mine = c.Mine(idx[0]*nt + idx[1])
			}
			if mine {
				sb.Reset()
				for i := 0; i < length; i++ {
					sb.WriteString(c11Tokens[idx[i]])
				}
				text := sb.String()
				c.Sum.Evaluations++
				class, detail, acc := c11Check(text)
				if acc {
					if !accepted[text] {
						accepted[text] = true
						if len(accepted)%5000 == 1 {
							c.Sample(map[string]any{"accepted_text": text, "tokens": length})
						}
					}
					c.Sum.Outcomes["accepted"]++
				} else if class == "ok" {
					c.Sum.Outcomes["rejected"]++
				}
				if class != "ok" {
					report("tokens", "", text, class, detail)
				}
			}
			// next
			k := length - 1
			if length >= 2 && !mine {
				// skip the whole subtree below (idx[0], idx[1])
				for j := 2; j < length; j++ {
					idx[j] = nt - 1
				}
			}
			for k >= 0 {
				idx[k]++
				if idx[k] < nt {
					break
				}
				idx[k] = 0
				k--
			}
			if k < 0 {
				break
			}
		}
	}
	// ---- part B: mutants and metamorphic variants of well-formed programs
	bases := c11Bases()
	var names []string
	for n := range bases {
		names = append(names, n)
	}
	sortStrings(names)
	item := 0
	for _, name := range names {
		base := bases[name]
		ref, err, pan := safeParse(base)
		if err != nil || pan != nil {
			if c.Shard == 0 {
				report("base", name, base, "base-rejected", fmt.Sprint(err, pan))
			}
			continue
		}
		toks := tokenize(base)
		mutant := func(kind, text string) {
			if !c.Mine(item) {
				item++
				return
			}
			item++
			c.Sum.Evaluations++
			class, detail, acc := c11Check(text)
			if acc {
				accepted[text] = true
				c.Sum.Outcomes["accepted"]++
			} else if class == "ok" {
				c.Sum.Outcomes["rejected"]++
			}
			if class != "ok" {
				report(kind, name, text, class, detail)
			}
		}
		for i := range toks {
			mutant("delete-token", strings.Join(append(append([]string{}, toks[:i]...), toks[i+1:]...), ""))
			mutant("duplicate-token", strings.Join(append(append(append([]string{}, toks[:i+1]...), toks[i]), toks[i+1:]...), ""))
			for _, ins := range []string{"(", ")", ",", ":", "#", "\t", "99999999999", "-"} {
				mutant("insert-"+ins, strings.Join(append(append(append([]string{}, toks[:i]...), ins), toks[i:]...), ""))
			}
			if len(toks[i]) > 1 {
				mutant("truncate-token", strings.Join(append(append(append([]string{}, toks[:i]...), toks[i][:len(toks[i])-1]), toks[i+1:]...), ""))
			}
		}
		// truncated text at every byte
		for i := 0; i <= len(base); i++ {
			mutant("truncate-text", base[:i])
		}
		// duplicate every label line somewhere later
		lines := strings.Split(base, "\n")
		for i, l := range lines {
			if strings.HasSuffix(strings.TrimSpace(l), ":") {
				for j := i + 1; j <= len(lines); j++ {
					dup := append(append(append([]string{}, lines[:j]...), l), lines[j:]...)
					mutant("duplicate-label", strings.Join(dup, "\n"))
				}
			}
		}
		// metamorphic variants: must parse to the same result
		variant := func(kind, text string) {
			if !c.Mine(item) {
				item++
				return
			}
			item++
			c.Sum.Evaluations++
			class, detail := c11Variant(ref, text)
			if class != "ok" {
				report(kind, name, text, class, detail)
			} else {
				c.Sum.Outcomes["variant-same"]++
				accepted[text] = true
			}
		}
		// long lines: a comment line, a trailing comment, indentation or trailing blanks of `size` bytes
		longVariant := func(kind string, line, size int) {
			if !c.Mine(item) {
				item++
				return
			}
			item++
			c.Sum.Evaluations++
			class, detail := c11Variant(ref, c11LongText(base, kind, line, size))
			if class != "ok" {
				c.Outcome(class)
				if c.nFails < 2000 {
					c.Fail("parser/"+class, class, c11Case{Kind: kind, Base: name, Line: line, Size: size}, detail)
				}
			} else {
				c.Sum.Outcomes["variant-same"]++
				c.Sum.Outcomes["long-line-variant-same"]++
			}
		}
		sizes := []int{70000}
		if c.Thorough() {
			sizes = []int{4096, 65535, 65536, 70000, 1 << 20}
		}
		for _, size := range sizes {
			for i := 0; i <= len(lines); i++ {
				longVariant("long-comment-line", i, size)
			}
			for i, l := range lines {
				t := strings.TrimSpace(l)
				if t == "" {
					continue
				}
				longVariant("long-indent", i, size)
				longVariant("long-trailing-blanks", i, size)
				if !strings.HasSuffix(t, ":") && t[0] != '#' && strings.Contains(t, " ") {
					longVariant("long-trailing-comment", i, size)
				}
			}
		}
		for i := 0; i <= len(lines); i++ {
			for _, ins := range []string{"", "   ", "\t", "# a comment", "  # addi t0, t0, 1", "#"} {
				v := append(append(append([]string{}, lines[:i]...), ins), lines[i:]...)
				variant("insert-blank-or-comment-line", strings.Join(v, "\n"))
			}
		}
		for i, l := range lines {
			if strings.TrimSpace(l) == "" {
				continue
			}
			for _, pre := range []string{"  ", "\t", " \t ", "        "} {
				v := append([]string{}, lines...)
				v[i] = pre + l
				variant("indent", strings.Join(v, "\n"))
				v[i] = l + pre
				variant("trailing-blanks", strings.Join(v, "\n"))
			}
			t := strings.TrimSpace(l)
			if !strings.HasSuffix(t, ":") && t[0] != '#' && strings.Contains(t, " ") {
				v := append([]string{}, lines...)
				v[i] = l + " # trailing comment"
				variant("trailing-comment", strings.Join(v, "\n"))
				v[i] = l + "#x"
				variant("trailing-comment", strings.Join(v, "\n"))
				// mnemonic case
				lead := l[:len(l)-len(strings.TrimLeft(l, " \t"))]
				sp := strings.Index(t, " ")
				v[i] = lead + strings.ToUpper(t[:sp]) + t[sp:]
				variant("mnemonic-case", strings.Join(v, "\n"))
				v[i] = lead + strings.ToUpper(t[:1]) + t[1:]
				variant("mnemonic-case", strings.Join(v, "\n"))
			}
		}
		variant("crlf-free-trailing-newlines", base+"\n\n\n")
	}
	// ---- part C: operand probes, independent of the parser's own tables
	for _, pr := range c11OperandProbes() {
		if !c.Mine(item) {
			item++
			continue
		}
		item++
		c.Sum.Evaluations++
		class, detail, acc := c11OperandCheck(pr)
		if acc {
			accepted[pr.Text] = true
			c.Sum.Outcomes["operand-probe-accepted"]++
		} else if class == "ok" {
			c.Sum.Outcomes["operand-probe-rejected"]++
		}
		if class != "ok" {
			c.Outcome(class)
			c.Fail("parser/"+class, class, pr, detail)
		}
	}
	c.Sum.Nontrivial = int64(len(accepted))
	c.Sum.States = c.Sum.Evaluations
	c.Sum.Transitions = c.Sum.Evaluations
	c.Sum.Validated = c.Sum.Evaluations
	c.Sum.Rule = fmt.Sprintf("IX: every string of <= %d tokens over the %d-token alphabet %q, plus every single-edit mutant (delete/duplicate/truncate a token, insert ( ) , : # tab huge-number, truncate the text at every byte, duplicate a label) and metamorphic variant (blank/comment lines, indentation, trailing blanks/comments, mnemonic case, and the same with lines of up to %d bytes) of %d well-formed programs; plus operand probes: every mnemonic x every register slot x all 64 register spellings (32 ABI names, with and without $) and %d non-names, every immediate slot x %d canonical / %d non-canonical / %d unrepresentable decimal strings, each accepted probe compared through ReadRegisters/WriteRegisters, MemoryRead/MemoryWrite and one Run with the independent register table and the RV32IM table; non-trivial = distinct strings the parser accepted (their structure is then checked against the independent classifier)", maxTok, nt, c11Tokens, sizes11(c.Thorough()), len(bases), len(c11NotRegisters), len(c11ImmCanonical), len(c11ImmNonCanonical), len(c11ImmUnrepresentable))
	c.Assume("an accepted immediate written as an optional sign and decimal digits must be decoded as that decimal number; one that does not fit 32 bits cannot be decoded and must be rejected; hexadecimal or other non-decimal spellings are not judged")
	c.Assume("a label line is a line without a space that ends with ':'; duplicate labels may resolve to any of their definitions")
	c.Assume("operand decoding is compared with the parse of the canonical rendering produced by an independent tokenizer; the meaning of canonical renderings is checked by C02")
}

// ---- part C helpers

func c11OperandText(sp *c02Spec, rd, rs1, rs2, imm string) string {
	var ins string
	switch sp.kind {
	case kR:
		ins = fmt.Sprintf("%s %s, %s, %s", sp.mn, rd, rs1, rs2)
	case kI, kJalr:
		ins = fmt.Sprintf("%s %s, %s, %s", sp.mn, rd, rs1, imm)
	case kU, kAuipc:
		ins = fmt.Sprintf("%s %s, %s", sp.mn, rd, imm)
	case kMv:
		ins = fmt.Sprintf("%s %s, %s", sp.mn, rd, rs1)
	case kB2:
		ins = fmt.Sprintf("%s %s, %s, target", sp.mn, rs1, rs2)
	case kB1:
		ins = fmt.Sprintf("%s %s, target", sp.mn, rs1)
	case kJ:
		ins = "j target"
	case kJal:
		ins = fmt.Sprintf("jal %s, target", rd)
	case kLoad:
		ins = fmt.Sprintf("%s %s, %s(%s)", sp.mn, rd, imm, rs1)
	case kStore:
		ins = fmt.Sprintf("%s %s, %s(%s)", sp.mn, rs2, imm, rs1)
	case kSh:
		ins = fmt.Sprintf("%s %s, %s, %s", sp.mn, rs2, imm, rs1)
	case kNop, kRet:
		ins = sp.mn
	}
	return ins + "\nnop\nnop\ntarget:\nnop\n"
}

// strings that name no register
var c11NotRegisters = []string{"s12", "t7", "a8", "x5", "zero0", "$$t0", "t", "$", "0", "t0t0", "ra1", "s", "sp0", "$x"}

// decimal immediates: canonical in-range forms (must be accepted and decoded
// exactly), non-canonical forms (sign/leading zeros: if accepted, decoded as
// decimal), and values no 32-bit immediate can hold (must be rejected).
var c11ImmCanonical = []string{"0", "1", "-1", "9", "10", "2047", "-2048", "2048", "65535", "1048576", "2147483640", "-2147483640", "2147483647", "-2147483648"}
var c11ImmNonCanonical = []string{"+7", "007", "-007", "010", "-010", "0000000000000000000000012", "-0", "08", "0777"}
var c11ImmUnrepresentable = []string{"2147483648", "-2147483649", "4294967296", "4294967301", "-4294967291", "99999999999", "9223372036854775807", "9223372036854775808", "-9223372036854775809", "18446744073709551621", "-18446744073709551611", "340282366920938463463374607431768211461"}

func c11OperandProbes() []c11Case {
	var out []c11Case
	for si := range c02Specs {
		sp := &c02Specs[si]
		urd, urs1, urs2, uimm := sp.uses()
		slots := []string{}
		if urd {
			slots = append(slots, "rd")
		}
		if urs1 {
			slots = append(slots, "rs1")
		}
		if urs2 {
			slots = append(slots, "rs2")
		}
		for _, slot := range slots {
			for _, n := range fullRegNames {
				out = append(out, c11Case{Kind: "register-name", Mn: sp.mn, Slot: slot, Operand: n})
				out = append(out, c11Case{Kind: "register-name", Mn: sp.mn, Slot: slot, Operand: "$" + n})
			}
			for _, n := range c11NotRegisters {
				out = append(out, c11Case{Kind: "not-a-register", Mn: sp.mn, Slot: slot, Operand: n})
			}
		}
		if uimm {
			for _, v := range c11ImmCanonical {
				out = append(out, c11Case{Kind: "immediate-canonical", Mn: sp.mn, Slot: "imm", Operand: v})
			}
			for _, v := range c11ImmNonCanonical {
				out = append(out, c11Case{Kind: "immediate-noncanonical", Mn: sp.mn, Slot: "imm", Operand: v})
			}
			for _, v := range c11ImmUnrepresentable {
				out = append(out, c11Case{Kind: "immediate-unrepresentable", Mn: sp.mn, Slot: "imm", Operand: v})
			}
		}
	}
	for i := range out {
		out[i].Text = c11ProbeText(out[i])
	}
	return out
}

func c11ProbeText(k c11Case) string {
	sp := specKinds[k.Mn]
	rd, rs1, rs2, imm := "t0", "t1", "t2", "0"
	switch k.Slot {
	case "rd":
		rd = k.Operand
	case "rs1":
		rs1 = k.Operand
	case "rs2":
		rs2 = k.Operand
	case "imm":
		imm = k.Operand
		rs1 = "zero"
	}
	return c11OperandText(sp, rd, rs1, rs2, imm)
}

// c11OperandCheck: class, detail, accepted.
func c11OperandCheck(k c11Case) (string, string, bool) {
	sp := specKinds[k.Mn]
	if sp == nil {
		return "ok", "unknown mnemonic in case", false
	}
	text := c11ProbeText(k)
	app, err, pan := safeParse(text)
	if pan != nil {
		return "panic", fmt.Sprint(pan), false
	}
	if err != nil {
		if k.Kind == "register-name" || k.Kind == "immediate-canonical" {
			return "operand-rejected", fmt.Sprintf("%q: %v", strings.Split(text, "\n")[0], err), false
		}
		return "ok", "", false
	}
	first := strings.Split(text, "\n")[0]
	if len(app.Instructions) != 4 || app.Labels["target"] != c02Target {
		return "wrong-instruction-count", fmt.Sprintf("%d instructions, labels %v", len(app.Instructions), app.Labels), true
	}
	switch k.Kind {
	case "not-a-register":
		return "unnamed-register-accepted", fmt.Sprintf("%q accepted although %q names no register; decoded %+v", first, k.Operand, app.Instructions[0]), true
	case "immediate-unrepresentable":
		return "unrepresentable-immediate-accepted", fmt.Sprintf("%q accepted although %s does not fit a 32-bit immediate; decoded %+v", first, k.Operand, app.Instructions[0]), true
	}
	rd, rs1, rs2 := risc.T0, risc.T1, risc.T2
	var imm int32
	switch k.Slot {
	case "rd":
		rd = specRegs[k.Operand]
	case "rs1":
		rs1 = specRegs[k.Operand]
	case "rs2":
		rs2 = specRegs[k.Operand]
	case "imm":
		v, ok := new(big.Int).SetString(k.Operand, 10)
		if !ok || !v.IsInt64() || v.Int64() != int64(int32(v.Int64())) {
			return "ok", "case not decimal", true
		}
		imm = int32(v.Int64())
		rs1 = risc.Zero
	}
	p := &c02Probe{sp: sp, ins: app.Instructions[0], lbl: app.Labels, ctx: risc.NewContext(false, 16, false), text: text, rd: rd, rs1: rs1, rs2: rs2, imm: imm}
	urd, urs1, urs2, _ := sp.uses()
	if !urd {
		p.rd = risc.Zero
	}
	if !urs1 {
		p.rs1 = risc.Zero
	}
	if !urs2 {
		p.rs2 = risc.Zero
	}
	if class, detail := p.declared(); class != "ok" {
		return "wrong-operands", fmt.Sprintf("%q: %s", first, detail), true
	}
	// one execution: the named registers hold distinct values, everything else 0
	if sp.kind == kLoad || sp.kind == kStore || sp.kind == kSh {
		// addresses only (the immediate may point anywhere)
		p.ins.Forward(risc.Forward{})
		for r, v := range map[risc.RegisterType]int32{rd: 0x1100, rs1: 0x40, rs2: 0x3300} {
			if r != risc.Zero {
				p.ctx.Registers[r] = v
			}
		}
		base := p.ctx.Registers[p.rs1]
		var want []int32
		for i := 0; i < sp.bytes; i++ {
			want = append(want, base+imm+int32(i))
		}
		got := p.ins.MemoryRead(p.ctx, 0)
		if sp.kind != kLoad {
			got = p.ins.MemoryWrite(p.ctx, 0)
		}
		if !sameAddrs(got, want) {
			return "wrong-operands", fmt.Sprintf("%q: accesses %v, the operands name %v", first, got, want), true
		}
		return "ok", "", true
	}
	class, detail := guard(func() (string, string) { return c11RunProbe(p) })
	if class != "ok" {
		return "wrong-operands", fmt.Sprintf("%q: %s: %s", first, class, detail), true
	}
	return "ok", "", true
}

// c11RunProbe runs a non-memory probe once with distinct values in the named
// registers and compares the effect with the RV32IM table of C02.
func c11RunProbe(p *c02Probe) (string, string) {
	vals := map[risc.RegisterType]int32{}
	for _, rv := range []struct {
		r risc.RegisterType
		v int32
	}{{p.rd, 0x1111}, {p.rs2, 0x0333}, {p.rs1, 0x0044}} {
		if rv.r != risc.Zero {
			vals[rv.r] = rv.v
		}
	}
	for k := range p.ctx.Registers {
		delete(p.ctx.Registers, k)
	}
	for k, v := range vals {
		p.ctx.Registers[k] = v
	}
	a, b := uint32(vals[p.rs1]), uint32(vals[p.rs2])
	if p.sp.skipB != nil && p.sp.skipB(b) {
		return "ok", ""
	}
	want, _, _ := p.sp.expect(p.rd, p.rs1, p.rs2, a, b, p.imm, 0, nil)
	p.ins.Forward(risc.Forward{})
	exe, err := p.ins.Run(p.ctx, p.lbl, 0, nil, 0)
	if err != nil {
		return "error", err.Error()
	}
	got, msg := observed(exe)
	if msg != "" {
		return "zero-register", msg
	}
	if !sameEffect(got, want) {
		return "wrong-effect", fmt.Sprintf("observed {%v}, RV32IM {%v}", got, want)
	}
	return "ok", ""
}

func sizes11(thorough bool) int {
	if thorough {
		return 1 << 20
	}
	return 70000
}

func sortStrings(s []string) {
	for i := 1; i < len(s); i++ {
		for j := i; j > 0 && s[j] < s[j-1]; j-- {
			s[j], s[j-1] = s[j-1], s[j]
		}
	}
}

// tokenize splits text into maximal runs of word characters and single other characters.
func tokenize(s string) []string {
	var out []string
	cur := ""
	isWord := func(b byte) bool {
		return b == '_' || b == '-' || b == '$' || (b >= '0' && b <= '9') || (b >= 'a' && b <= 'z') || (b >= 'A' && b <= 'Z')
	}
	for i := 0; i < len(s); i++ {
		if isWord(s[i]) {
			cur += string(s[i])
			continue
		}
		if cur != "" {
			out = append(out, cur)
			cur = ""
		}
		out = append(out, string(s[i]))
	}
	if cur != "" {
		out = append(out, cur)
	}
	return out
}

func init() {
	register("C11", &Check{
		Shards: func(tier string) int { return 64 },
		Run:    c11Run,
		Replay: func(prop string, raw json.RawMessage) (string, string) {
			var k c11Case
			json.Unmarshal(raw, &k)
			if k.Mn != "" {
				class, detail, _ := c11OperandCheck(k)
				return class, detail
			}
			if strings.HasPrefix(k.Kind, "long-") {
				base := c11Bases()[k.Base]
				ref, _, _ := safeParse(base)
				return c11Variant(ref, c11LongText(base, k.Kind, k.Line, k.Size))
			}
			if strings.HasPrefix(k.Kind, "insert-blank") || k.Kind == "indent" || k.Kind == "trailing-blanks" || k.Kind == "trailing-comment" || k.Kind == "mnemonic-case" || k.Kind == "crlf-free-trailing-newlines" {
				base := c11Bases()[k.Base]
				ref, _, _ := safeParse(base)
				app, err, pan := safeParse(k.Text)
				switch {
				case pan != nil:
					return "panic", fmt.Sprint(pan)
				case err != nil:
					return "variant-rejected", err.Error()
				case !sameApp(app, ref):
					return "variant-differs", ""
				}
				return "ok", ""
			}
			class, detail, _ := c11Check(k.Text)
			return class, detail
		},
	})
}
