package main

import (
	"fmt"
	"sort"

	"github.com/teivah/majorana/proc/comp"
	"github.com/teivah/majorana/risc"
)

// C15 — speculative register state commits and rolls back by program order.
//
// Reference model: per register the architectural value and the list of
// uncommitted writes (tag, value) in arrival order. "Youngest" means highest
// tag (program order); among equal tags the later arrival.
//   commit      : arch := youngest write (if any); list cleared
//   rollback(s) : arch := youngest write with tag < s (if any); list cleared
//   read(r, t)  : youngest write with tag <= t, else arch; never a younger one
//   plain read  : youngest write, else arch
// The statement's limit is part of the oracle: tag-bounded reads and rollback
// are only compared while the number of uncommitted writes to that register
// does not exceed the slots (1 for the transaction map, the ring length for
// the rename table); commit and plain reads are always compared.

type specWrite struct {
	tag int32
	val int32
}

type ctxSys struct {
	rat     bool
	ctx     *risc.Context
	regs    []risc.RegisterType
	names   []string
	arch    map[risc.RegisterType]int32
	pend    map[risc.RegisterType][]specWrite
	nextVal int32
	maxPend int
	tags    []int32
	slots   int
	readers map[risc.RegisterType]risc.InstructionRunner
	wrap    bool // offer the ring wrap-around macro
	lastOOO bool
}

var c15Tags = []int32{10, 20, 30, 1010, 1020}

func newCtxSys(rat bool, maxPend int, wrap bool, nregs int) *ctxSys {
	s := &ctxSys{rat: rat, ctx: risc.NewContext(false, 16, rat), regs: []risc.RegisterType{risc.T0, risc.T1}[:nregs], names: []string{"t0", "t1"}[:nregs],
		arch: map[risc.RegisterType]int32{}, pend: map[risc.RegisterType][]specWrite{}, nextVal: 100, maxPend: maxPend, tags: c15Tags, wrap: wrap,
		readers: map[risc.RegisterType]risc.InstructionRunner{}}
	s.slots = 1
	if rat {
		s.slots = risc.VerifRATLength
	}
	// initial architectural state, through the public surface
	s.ctx.Registers[risc.T0] = 5
	s.ctx.Registers[risc.T1] = 7
	s.arch[risc.T0], s.arch[risc.T1] = 5, 7
	if rat {
		s.ctx.InitRAT()
	}
	for i, r := range s.regs {
		app, err := risc.Parse("mv t2, " + s.names[i])
		if err != nil {
			panic(err)
		}
		s.readers[r] = app.Instructions[0]
	}
	return s
}

func (s *ctxSys) Ops() []sxOp {
	var ops []sxOp
	for ri := range s.regs {
		if len(s.pend[s.regs[ri]]) < s.maxPend {
			for ti := range s.tags {
				ops = append(ops, sxOp{"Write", []int{ri, ti}})
			}
		}
		if s.wrap && len(s.pend[s.regs[ri]]) == 0 {
			ops = append(ops, sxOp{"WriteRingPlusOne", []int{ri}})
		}
		for ti := range s.tags {
			ops = append(ops, sxOp{"Read", []int{ri, ti}})
		}
		ops = append(ops, sxOp{"PlainRead", []int{ri}})
	}
	ops = append(ops, sxOp{"Commit", nil})
	for ti := range s.tags {
		ops = append(ops, sxOp{"Rollback", []int{ti}})
	}
	ops = append(ops, sxOp{"Rollback", []int{-1}}) // rollback to a tag between 10 and 20
	if s.rat {
		ops = append(ops, sxOp{"RATFlush", nil})
	}
	return ops
}

func youngest(ws []specWrite, ok func(specWrite) bool) (specWrite, bool) {
	var best specWrite
	found := false
	for _, w := range ws {
		if ok(w) && (!found || w.tag >= best.tag) {
			best, found = w, true
		}
	}
	return best, found
}

func (s *ctxSys) write(r risc.RegisterType, tag int32) {
	v := s.nextVal
	s.nextVal++
	exe := risc.Execution{RegisterChange: true, Register: r, RegisterValue: v}
	if s.rat {
		s.ctx.TransactionRATWrite(exe, tag)
	} else {
		s.ctx.TransactionWriteRegister(exe, tag)
	}
	s.pend[r] = append(s.pend[r], specWrite{tag, v})
}

func (s *ctxSys) read(r risc.RegisterType, tag int32) (int32, error) {
	exe, err := s.readers[r].Run(s.ctx, nil, 0, nil, tag)
	return exe.RegisterValue, err
}

func (s *ctxSys) Apply(op sxOp) string {
	s.lastOOO = s.ooo()
	switch op.Name {
	case "Write":
		s.write(s.regs[op.Args[0]], s.tags[op.Args[1]])
	case "WriteRingPlusOne":
		// slots+1 writes with increasing tags 10, 11, ...: the ring wraps once
		r := s.regs[op.Args[0]]
		for i := 0; i <= s.slots; i++ {
			s.write(r, 10+int32(i))
		}
	case "Read":
		r, t := s.regs[op.Args[0]], s.tags[op.Args[1]]
		got, err := s.read(r, t)
		if err != nil {
			return "read failed: " + err.Error()
		}
		if len(s.pend[r]) > s.slots {
			return "" // beyond the table's slots only commit and plain reads are specified
		}
		for _, w := range s.pend[r] {
			if w.tag > t && w.val == got {
				return fmt.Sprintf("read of %v on behalf of tag %d returned %d, written by the younger instruction tag %d", r, t, got, w.tag)
			}
		}
		want := s.arch[r]
		if w, ok := youngest(s.pend[r], func(w specWrite) bool { return w.tag <= t }); ok {
			want = w.val
		}
		if got != want {
			return fmt.Sprintf("read of %v on behalf of tag %d returned %d, want %d (uncommitted writes %v, architectural %d)", r, t, got, want, s.pend[r], s.arch[r])
		}
	case "PlainRead":
		r := s.regs[op.Args[0]]
		got, err := s.read(r, 0)
		if err != nil {
			return "read failed: " + err.Error()
		}
		want := s.arch[r]
		if w, ok := youngest(s.pend[r], func(specWrite) bool { return true }); ok {
			want = w.val
		}
		if got != want {
			return fmt.Sprintf("plain read of %v returned %d, want the youngest value %d (uncommitted writes %v, architectural %d)", r, got, want, s.pend[r], s.arch[r])
		}
	case "Commit":
		if s.rat {
			s.ctx.RATCommit()
		} else {
			s.ctx.Commit()
		}
		for _, r := range s.regs {
			if w, ok := youngest(s.pend[r], func(specWrite) bool { return true }); ok {
				s.arch[r] = w.val
			}
			s.pend[r] = nil
		}
	case "Rollback":
		var tag int32 = 15
		if op.Args[0] >= 0 {
			tag = s.tags[op.Args[0]]
		}
		over := map[risc.RegisterType]bool{}
		for _, r := range s.regs {
			over[r] = len(s.pend[r]) > s.slots
		}
		if s.rat {
			s.ctx.RATRollback(tag)
		} else {
			s.ctx.Rollback(tag)
		}
		for _, r := range s.regs {
			if over[r] {
				// unspecified beyond the slots: adopt what the implementation did
				s.arch[r] = s.ctx.VerifArch(r)
			} else if w, ok := youngest(s.pend[r], func(w specWrite) bool { return w.tag < tag }); ok {
				s.arch[r] = w.val
			}
			s.pend[r] = nil
		}
	case "RATFlush":
		s.ctx.RATFlush()
		for _, r := range s.regs {
			if s.ctx.Registers[r] != s.arch[r] {
				return fmt.Sprintf("after RATFlush register file %v = %d, architectural value %d", r, s.ctx.Registers[r], s.arch[r])
			}
		}
	}
	for _, r := range s.regs {
		if got := s.ctx.VerifArch(r); got != s.arch[r] {
			return fmt.Sprintf("architectural value of %v is %d after %s, want %d (uncommitted writes before: see history)", r, got, op, s.arch[r])
		}
	}
	// complete observable state on every edge (reads are pure): the search prunes
	// on the model's canonical state, so a silent divergence must not survive
	if op.Name != "Read" && op.Name != "PlainRead" {
		for ri := range s.regs {
			if m := s.Apply(sxOp{"PlainRead", []int{ri}}); m != "" {
				return "after " + op.String() + ": " + m
			}
			for ti := range s.tags {
				if m := s.Apply(sxOp{"Read", []int{ri, ti}}); m != "" {
					return "after " + op.String() + ": " + m
				}
			}
		}
	}
	return ""
}

// FailTag tells whether, when the disagreement happened, some register had
// uncommitted writes that arrived out of program (tag) order. The model is
// updated before the comparison, so the pre-state is remembered in lastOOO.
func (s *ctxSys) FailTag() string {
	if s.lastOOO {
		return "out-of-order-arrival"
	}
	return "in-order-arrival"
}

func (s *ctxSys) ooo() bool {
	for _, r := range s.regs {
		for i := 1; i < len(s.pend[r]); i++ {
			if s.pend[r][i].tag < s.pend[r][i-1].tag {
				return true
			}
		}
	}
	return false
}

func (s *ctxSys) Canon() string {
	out := ""
	for _, r := range s.regs {
		for _, w := range s.pend[r] {
			out += fmt.Sprintf("%d,", w.tag)
		}
		out += "|"
	}
	return out
}

// ---- comp.RAT driven directly: ring semantics (time order, no tags)

type ratVal struct {
	Tag int
	Val int
}

type ratSys struct {
	impl    *comp.RAT[int, ratVal]
	length  int
	hist    map[int][]ratVal // all writes per key, oldest first
	nextVal int
	maxW    int
}

func (s *ratSys) window(k int) []ratVal {
	h := s.hist[k]
	if len(h) > s.length {
		h = h[len(h)-s.length:]
	}
	return h
}

func (s *ratSys) Ops() []sxOp {
	var ops []sxOp
	for k := 0; k < 2; k++ {
		if len(s.hist[k]) < s.maxW {
			for _, tag := range []int{1, 2, 3} {
				ops = append(ops, sxOp{"Write", []int{k, tag}})
			}
		}
		ops = append(ops, sxOp{"Read", []int{k}})
		for _, b := range []int{1, 2, 3} {
			ops = append(ops, sxOp{"FindTagAtMost", []int{k, b}})
		}
	}
	ops = append(ops, sxOp{"Values", nil})
	for _, b := range []int{1, 2, 3, 4} {
		ops = append(ops, sxOp{"FindValuesTagBelow", []int{b}})
	}
	return ops
}

func (s *ratSys) Apply(op sxOp) string {
	switch op.Name {
	case "Write":
		v := ratVal{op.Args[1], s.nextVal}
		s.nextVal++
		s.impl.Write(op.Args[0], v)
		s.hist[op.Args[0]] = append(s.hist[op.Args[0]], v)
	case "Read":
		got, ok := s.impl.Read(op.Args[0])
		w := s.window(op.Args[0])
		if ok != (len(w) > 0) || (ok && got != w[len(w)-1]) {
			return fmt.Sprintf("Read(%d)=(%v,%v), writes %v", op.Args[0], got, ok, w)
		}
	case "FindTagAtMost":
		k, b := op.Args[0], op.Args[1]
		got, ok := s.impl.Find(k, func(v ratVal) bool { return v.Tag <= b })
		w := s.window(k)
		var want ratVal
		wok := false
		for i := len(w) - 1; i >= 0; i-- {
			if w[i].Tag <= b {
				want, wok = w[i], true
				break
			}
		}
		if ok != wok || (ok && got != want) {
			return fmt.Sprintf("Find(%d, tag<=%d)=(%v,%v), want (%v,%v): most recent matching entry of the last %d writes %v", k, b, got, ok, want, wok, s.length, w)
		}
	case "Values":
		got := s.impl.Values()
		for k := 0; k < 2; k++ {
			w := s.window(k)
			v, ok := got[k]
			if ok != (len(w) > 0) || (ok && v != w[len(w)-1]) {
				return fmt.Sprintf("Values()[%d]=(%v,%v), writes %v", k, v, ok, w)
			}
		}
	case "FindValuesTagBelow":
		b := op.Args[0]
		got := s.impl.FindValues(func(v ratVal) bool { return v.Tag < b })
		for k := 0; k < 2; k++ {
			w := s.window(k)
			var want ratVal
			wok := false
			for i := len(w) - 1; i >= 0; i-- {
				if w[i].Tag < b {
					want, wok = w[i], true
					break
				}
			}
			v, ok := got[k]
			if ok != wok || (ok && v != want) {
				return fmt.Sprintf("FindValues(tag<%d)[%d]=(%v,%v), want (%v,%v): writes %v (never-written slots must not match)", b, k, v, ok, want, wok, w)
			}
		}
	}
	// complete observable behaviour on every edge
	if op.Name == "Write" {
		for k := 0; k < 2; k++ {
			if m := s.Apply(sxOp{"Read", []int{k}}); m != "" {
				return "after " + op.String() + ": " + m
			}
			for _, b := range []int{1, 2, 3} {
				if m := s.Apply(sxOp{"FindTagAtMost", []int{k, b}}); m != "" {
					return "after " + op.String() + ": " + m
				}
			}
		}
		for _, b := range []int{1, 2, 3, 4} {
			if m := s.Apply(sxOp{"FindValuesTagBelow", []int{b}}); m != "" {
				return "after " + op.String() + ": " + m
			}
		}
	}
	// ring contents
	for k := 0; k < 2; k++ {
		vals, idx, exists := s.impl.VerifSlots(k)
		w := s.window(k)
		if exists != (len(s.hist[k]) > 0) {
			return fmt.Sprintf("key %d exists=%v, writes %v", k, exists, s.hist[k])
		}
		if exists && vals[idx] != w[len(w)-1] {
			return fmt.Sprintf("key %d youngest slot %v, want %v", k, vals[idx], w[len(w)-1])
		}
	}
	return ""
}

func (s *ratSys) Canon() string {
	out := ""
	for k := 0; k < 2; k++ {
		h := s.hist[k]
		out += fmt.Sprintf("n%d:", len(h)%s.length+boolInt(len(h) >= s.length)*s.length)
		for _, v := range s.window(k) {
			out += fmt.Sprint(v.Tag)
		}
		out += "|"
	}
	return out
}

func boolInt(b bool) int {
	if b {
		return 1
	}
	return 0
}

func c15Specs(tier string) []*sxSpec {
	thorough := tier == "thorough"
	var specs []*sxSpec
	specs = append(specs,
		&sxSpec{Name: "context-transaction-map", MaxState: 3000000, New: func() sxSys { return newCtxSys(false, 2, false, 2) }},
		&sxSpec{Name: "context-rename-table", MaxState: 3000000, New: func() sxSys { return newCtxSys(true, 2, false, 2) }},
		&sxSpec{Name: "context-rename-table-wrap", MaxDepth: pick(thorough, 4, 3), MaxState: 3000000, New: func() sxSys { return newCtxSys(true, 1, true, 2) }},
		// one register, deeper: every arrival order of up to 3 (quick) / 4 (thorough) uncommitted writes
		&sxSpec{Name: "context-transaction-map-1reg", MaxState: 3000000, New: func() sxSys { return newCtxSys(false, pick(thorough, 4, 3), false, 1) }},
		&sxSpec{Name: "context-rename-table-1reg", MaxState: 3000000, New: func() sxSys { return newCtxSys(true, pick(thorough, 4, 3), false, 1) }},
	)
	for _, l := range []int{2, 3, 4} {
		l := l
		if l == 4 && !thorough {
			continue
		}
		specs = append(specs, &sxSpec{Name: fmt.Sprintf("rat-ring%d", l), MaxState: 3000000,
			New: func() sxSys {
				return &ratSys{impl: comp.NewRAT[int, ratVal](l), length: l, hist: map[int][]ratVal{}, nextVal: 100, maxW: l + 2}
			}})
	}
	sort.SliceStable(specs, func(i, j int) bool { return false })
	return specs
}

func init() {
	register("C15", &Check{
		Shards: func(tier string) int { return len(c15Specs(tier)) },
		Run: func(c *RunCtx) {
			c.Sum.Rule = "SX: BFS over histories of write(reg, fresh value, tag) / read(reg, tag) through an mv instruction's Run / plain read / Commit / Rollback(tag) (+ RATFlush, ring wrap-around macro) on risc.Context (transaction map and rename table paths), tags from {10,20,30,1010,1020} in arbitrary order, registers t0,t1; and of Write/Read/Find/Values/FindValues on comp.RAT with ring 2..4 to fix-point; canonical state = per-register sequence of uncommitted tags (values are opaque to the implementation); non-trivial = canonical states other than the initial one"
			sxRun(c, c15Specs(c.Tier))
			c.Assume("tag-bounded reads and rollback are compared only while uncommitted writes per register <= slots (1 for the transaction map, ring length for the rename table), as the statement says; commit and plain reads always")
			c.Assume("youngest = highest tag; equal tags: later arrival")
		},
		Replay: sxReplayCase(c15Specs),
	})
}
