package main

import (
	"fmt"
	"strings"
)

// C01 — every variant computes the sequential architectural result.
// PX over the general alphabet below: all programs of length <= 2 (quick)
// / <= 3 (thorough) in full, length 3 (quick) / 4 (thorough) over the core
// alphabet; every program is closed by a fixed epilogue.

// templates may contain %d, replaced by the instruction's position (unique labels).
var alphaGeneral = []string{
	// ALU
	"addi t0, t0, 1",
	"addi t1, zero, -3",
	"add t0, t1, t2",
	"add t1, t1, t1",
	"sub t2, t0, t1",
	"mul t0, t0, t1",
	"slt t2, t1, t0",
	"and t1, t0, t2",
	"mv t2, t0",
	"li t0, 9",
	// memory: line A = 0, A+4, line B = 64
	"lw t0, 0(zero)",
	"lw t1, 4(zero)",
	"lw t2, 64(zero)",
	"lb t2, 2(zero)",
	"lh t1, 66(zero)",
	"sw t0, 0(zero)",
	"sw t1, 4(zero)",
	"sw t2, 64(zero)",
	"sb t2, 65(zero)",
	"sh t0, 2, zero",
	// control
	"beq t0, t1, end",
	"bne t0, t1, end",
	"blt t0, t1, mid",
	"bge t0, t1, end",
	"bltu t1, t0, end",
	"j end",
	"jal ra, end",
	"jal t2, mid",
	"jalr t1, ra, 0",
	"ret",
	"nop",
	// counted two-iteration loops (the second iteration takes the BTB-hit path)
	"li t3, 2\nl%d:\naddi t0, t0, 1\naddi t3, t3, -1\nbnez t3, l%d",
	"li t3, 2\nl%d:\nlw t1, 0(zero)\naddi t1, t1, 1\nsw t1, 0(zero)\naddi t3, t3, -1\nbnez t3, l%d",
	// a branch that resolves late: its operand comes from a load that misses
	"lw t3, 192(zero)\nbnez t3, end",
	"lw t3, 192(zero)\nbnez t3, mid",
	// a subroutine called from two sites (the same jalr returns to two different addresses)
	"jal ra, f%d\naddi t1, t1, 1\njal ra, f%d\nj g%d\nf%d:\naddi t0, t0, 5\njalr zero, ra, 0\ng%d:",
	// duplicated source register
	"add t3, t0, t0",
	// a loop-carried dependence whose reader sits below its writer (three iterations)
	"li t3, 3\nl%d:\nadd t2, t2, t3\naddi t3, t3, -1\nbnez t3, l%d",
}

var alphaCore = []string{
	"addi t0, t0, 1",
	"addi t1, zero, -3",
	"add t0, t1, t2",
	"mul t2, t0, t1",
	"mv t1, t0",
	"lw t0, 0(zero)",
	"lw t1, 64(zero)",
	"lb t2, 1(zero)",
	"sw t0, 0(zero)",
	"sw t1, 64(zero)",
	"sb t2, 1(zero)",
	"beq t0, t1, end",
	"bne t0, t1, end",
	"j end",
	"jal ra, mid",
	"ret",
	"lw t3, 192(zero)\nbnez t3, end",
	"lw t3, 192(zero)\nbnez t3, mid",
}

// the epilogue writes a register no template uses, so that the final values of
// t0..t3 stay observable
const epilogue = "end:\naddi s11, t0, 1\nsw s11, 128(zero)"

// buildProg renders a body (template indices) with the `mid` label before the
// last body instruction and the epilogue after it.
func buildProg(alpha []string, idx []int) string {
	var lines []string
	for i, k := range idx {
		if i == len(idx)-1 {
			lines = append(lines, "mid:")
		}
		t := alpha[k]
		if strings.Contains(t, "%d") {
			t = strings.ReplaceAll(t, "%d", fmt.Sprint(i))
		}
		lines = append(lines, t)
	}
	if len(idx) == 0 {
		lines = append(lines, "mid:")
	}
	lines = append(lines, epilogue)
	return joinProg(lines)
}

func c01Programs(tier string, emit func(p pxProg)) {
	full, core := 2, 3
	if tier == "thorough" {
		full, core = 3, 4
	}
	for n := 0; n <= full; n++ {
		seqs(len(alphaGeneral), n, func(idx []int) {
			emit(pxProg{Text: buildProg(alphaGeneral, idx), Tag: fmt.Sprintf("general-len%d", n)})
		})
	}
	seqs(len(alphaCore), core, func(idx []int) {
		emit(pxProg{Text: buildProg(alphaCore, idx), Tag: fmt.Sprintf("core-len%d", core)})
	})
}

func nontrivialGeneral(ref *refResult, p pxProg) bool {
	return ref.Deps > 0 || ref.Taken > 0 || ref.MemOps > 1
}

var c01Suite = &pxSuite{
	Configs:    cfgsWhere(func(*pxConfig) bool { return true }),
	Programs:   c01Programs,
	Violates:   func(class string) bool { return class != "ok" && class != "cycle-bound" },
	Nontrivial: nontrivialGeneral,
	Rule:       "PX: every program of length <= 2 (quick) / <= 3 (thorough) over the 38-template general alphabet and of length 3 / 4 over the 18-template core alphabet (ALU incl. rd=rs aliases, lw/lb/lh/sw/sb/sh on lines 0 and 64, beq/bne/blt/bge/bltu/j/jal/jalr/ret to `mid`/`end`, two-iteration loop macros, a three-iteration loop whose loop-carried reader sits below its writer, a late-resolving branch fed by a missing load, a subroutine called from two sites, a duplicated source register), fixed epilogue, x 2 initial states (thorough: 4 up to length 2, 2 for length 3, 1 for the length-4 core) x 33 configurations (12 variants, parallelism 1..4); oracle = sequential reference (registers x1..x31, whole memory, no error); non-trivial = distinct programs whose reference trace has a register dependence within two instructions, a taken branch, or more than one memory access (the epilogue stores once)",
}

func init() {
	c01Suite.Inits = initsByID("pos", "neg")
	register("C01", &Check{
		Shards: func(tier string) int { return 64 },
		Run: func(c *RunCtx) {
			s := *c01Suite
			if c.Thorough() {
				// all four initial states for programs up to length 2, two for length 3, one for the length-4 core
				all, two, one := initsByID("pos", "neg", "zero", "ra"), initsByID("pos", "neg"), initsByID("pos")
				s.InitsFor = func(p pxProg) []*pxInit {
					switch p.Tag {
					case "general-len3":
						return two
					case "core-len4":
						return one
					}
					return all
				}
			}
			pxRunSuite(c, &s)
		},
		Replay: pxReplay(c01Suite),
	})
}
