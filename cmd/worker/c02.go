package main

import (
	"encoding/json"
	"fmt"
	"sort"
	"strings"

	"github.com/teivah/majorana/risc"
)

// C02 — each instruction has RV32IM semantics on all operand values.
//
// IX: every mnemonic is parsed from text by risc.Parse and its Run /
// MemoryRead / MemoryWrite / ReadRegisters / WriteRegisters are compared with
// an independent table written with uint32 arithmetic. Operands range over a
// boundary lattice L (all pairs), every register shape (rd in {zero,t0},
// rs1 in {zero,t0,t1}, rs2 in {zero,t0,t1,t2}: rd==rs and rs1==rs2 aliases
// included), an immediate lattice, and byte lattices for loads. Registers the
// instruction must not read hold a poison value that is flipped between two
// runs (dynamic non-interference); div/rem by zero belong to C07.

type c02Effect struct {
	hasReg bool
	reg    risc.RegisterType
	val    int32
	mem    map[int32]int8
	taken  bool
	target int32
	ret    bool
}

func (e c02Effect) String() string {
	var parts []string
	if e.hasReg {
		parts = append(parts, fmt.Sprintf("%v=%#x", e.reg, uint32(e.val)))
	}
	if len(e.mem) > 0 {
		var ks []int
		for k := range e.mem {
			ks = append(ks, int(k))
		}
		sort.Ints(ks)
		for _, k := range ks {
			parts = append(parts, fmt.Sprintf("mem[%d]=%#x", k, uint8(e.mem[int32(k)])))
		}
	}
	if e.taken {
		parts = append(parts, fmt.Sprintf("pc=%d", e.target))
	}
	if e.ret {
		parts = append(parts, "ret")
	}
	if len(parts) == 0 {
		return "no effect"
	}
	return strings.Join(parts, " ")
}

type c02Kind int

const (
	kR c02Kind = iota
	kI
	kU     // lui, li: rd, imm
	kAuipc // rd, imm (uses pc)
	kMv
	kB2
	kB1
	kJ
	kJal
	kJalr
	kLoad
	kStore // sb, sw: rs2, imm(rs1)
	kSh    // sh rs2, imm, rs1
	kNop
	kRet
)

type c02Spec struct {
	mn    string
	kind  c02Kind
	alu   func(a, b uint32) uint32 // R / I value (b = rs2 or imm)
	cond  func(a, b uint32) bool   // branches
	bytes int                      // loads / stores
	skipB func(b uint32) bool      // operand b values outside the property (div by zero)
}

func sx(v uint32, bits uint) uint32 { // sign extend low bits
	s := 32 - bits
	return uint32(int32(v<<s) >> s)
}

func b2u(b bool) uint32 {
	if b {
		return 1
	}
	return 0
}

var c02Specs = []c02Spec{
	{mn: "add", kind: kR, alu: func(a, b uint32) uint32 { return a + b }},
	{mn: "sub", kind: kR, alu: func(a, b uint32) uint32 { return a - b }},
	{mn: "and", kind: kR, alu: func(a, b uint32) uint32 { return a & b }},
	{mn: "or", kind: kR, alu: func(a, b uint32) uint32 { return a | b }},
	{mn: "xor", kind: kR, alu: func(a, b uint32) uint32 { return a ^ b }},
	{mn: "sll", kind: kR, alu: func(a, b uint32) uint32 { return a << (b & 31) }},
	{mn: "srl", kind: kR, alu: func(a, b uint32) uint32 { return a >> (b & 31) }},
	{mn: "sra", kind: kR, alu: func(a, b uint32) uint32 { return uint32(int32(a) >> (b & 31)) }},
	{mn: "slt", kind: kR, alu: func(a, b uint32) uint32 { return b2u(int32(a) < int32(b)) }},
	{mn: "sltu", kind: kR, alu: func(a, b uint32) uint32 { return b2u(a < b) }},
	{mn: "mul", kind: kR, alu: func(a, b uint32) uint32 { return uint32(uint64(a) * uint64(b)) }},
	{mn: "div", kind: kR, skipB: func(b uint32) bool { return b == 0 }, alu: func(a, b uint32) uint32 {
		if a == 0x80000000 && b == 0xffffffff {
			return 0x80000000
		}
		return uint32(int32(a) / int32(b))
	}},
	{mn: "rem", kind: kR, skipB: func(b uint32) bool { return b == 0 }, alu: func(a, b uint32) uint32 {
		if a == 0x80000000 && b == 0xffffffff {
			return 0
		}
		return uint32(int32(a) % int32(b))
	}},
	{mn: "addi", kind: kI, alu: func(a, b uint32) uint32 { return a + b }},
	{mn: "andi", kind: kI, alu: func(a, b uint32) uint32 { return a & b }},
	{mn: "ori", kind: kI, alu: func(a, b uint32) uint32 { return a | b }},
	{mn: "xori", kind: kI, alu: func(a, b uint32) uint32 { return a ^ b }},
	{mn: "slti", kind: kI, alu: func(a, b uint32) uint32 { return b2u(int32(a) < int32(b)) }},
	{mn: "slli", kind: kI, alu: func(a, b uint32) uint32 { return a << (b & 31) }},
	{mn: "srli", kind: kI, alu: func(a, b uint32) uint32 { return a >> (b & 31) }},
	{mn: "srai", kind: kI, alu: func(a, b uint32) uint32 { return uint32(int32(a) >> (b & 31)) }},
	{mn: "lui", kind: kU, alu: func(_, imm uint32) uint32 { return imm << 12 }},
	{mn: "li", kind: kU, alu: func(_, imm uint32) uint32 { return imm }},
	{mn: "auipc", kind: kAuipc},
	{mn: "mv", kind: kMv},
	{mn: "beq", kind: kB2, cond: func(a, b uint32) bool { return a == b }},
	{mn: "bne", kind: kB2, cond: func(a, b uint32) bool { return a != b }},
	{mn: "blt", kind: kB2, cond: func(a, b uint32) bool { return int32(a) < int32(b) }},
	{mn: "bge", kind: kB2, cond: func(a, b uint32) bool { return int32(a) >= int32(b) }},
	{mn: "ble", kind: kB2, cond: func(a, b uint32) bool { return int32(a) <= int32(b) }},
	{mn: "bltu", kind: kB2, cond: func(a, b uint32) bool { return a < b }},
	{mn: "bgeu", kind: kB2, cond: func(a, b uint32) bool { return a >= b }},
	{mn: "beqz", kind: kB1, cond: func(a, _ uint32) bool { return a == 0 }},
	{mn: "bnez", kind: kB1, cond: func(a, _ uint32) bool { return a != 0 }},
	{mn: "j", kind: kJ},
	{mn: "jal", kind: kJal},
	{mn: "jalr", kind: kJalr},
	{mn: "lb", kind: kLoad, bytes: 1},
	{mn: "lh", kind: kLoad, bytes: 2},
	{mn: "lw", kind: kLoad, bytes: 4},
	{mn: "sb", kind: kStore, bytes: 1},
	{mn: "sh", kind: kSh, bytes: 2},
	{mn: "sw", kind: kStore, bytes: 4},
	{mn: "nop", kind: kNop},
	{mn: "ret", kind: kRet},
}

var regName = map[risc.RegisterType]string{risc.Zero: "zero", risc.T0: "t0", risc.T1: "t1", risc.T2: "t2", risc.Ra: "ra"}

const c02Target = 12 // address of label `target` in every probe program

func c02Text(sp *c02Spec, rd, rs1, rs2 risc.RegisterType, imm int32) string {
	var ins string
	switch sp.kind {
	case kR:
		ins = fmt.Sprintf("%s %s, %s, %s", sp.mn, regName[rd], regName[rs1], regName[rs2])
	case kI, kJalr:
		ins = fmt.Sprintf("%s %s, %s, %d", sp.mn, regName[rd], regName[rs1], imm)
	case kU, kAuipc:
		ins = fmt.Sprintf("%s %s, %d", sp.mn, regName[rd], imm)
	case kMv:
		ins = fmt.Sprintf("%s %s, %s", sp.mn, regName[rd], regName[rs1])
	case kB2:
		ins = fmt.Sprintf("%s %s, %s, target", sp.mn, regName[rs1], regName[rs2])
	case kB1:
		ins = fmt.Sprintf("%s %s, target", sp.mn, regName[rs1])
	case kJ:
		ins = "j target"
	case kJal:
		ins = fmt.Sprintf("jal %s, target", regName[rd])
	case kLoad:
		ins = fmt.Sprintf("%s %s, %d(%s)", sp.mn, regName[rd], imm, regName[rs1])
	case kStore:
		ins = fmt.Sprintf("%s %s, %d(%s)", sp.mn, regName[rs2], imm, regName[rs1])
	case kSh:
		ins = fmt.Sprintf("%s %s, %d, %s", sp.mn, regName[rs2], imm, regName[rs1])
	case kNop, kRet:
		ins = sp.mn
	}
	return ins + "\nnop\nnop\ntarget:\nnop\n"
}

// which register slots a kind uses
func (sp *c02Spec) uses() (rd, rs1, rs2, imm bool) {
	switch sp.kind {
	case kR:
		return true, true, true, false
	case kI, kJalr:
		return true, true, false, true
	case kU, kAuipc:
		return true, false, false, true
	case kMv:
		return true, true, false, false
	case kB2:
		return false, true, true, false
	case kB1:
		return false, true, false, false
	case kJal:
		return true, false, false, false
	case kLoad:
		return true, true, false, true
	case kStore, kSh:
		return false, true, true, true
	}
	return false, false, false, false
}

// expected effect from the RV32IM table
func (sp *c02Spec) expect(rd, rs1r, rs2r risc.RegisterType, a, b uint32, imm int32, pc int32, mem []int8) (c02Effect, []int32, []int32) {
	var e c02Effect
	var reads, writes []int32
	setRd := func(v uint32) {
		if rd != risc.Zero {
			e.hasReg, e.reg, e.val = true, rd, int32(v)
		}
	}
	switch sp.kind {
	case kR:
		setRd(sp.alu(a, b))
	case kI:
		setRd(sp.alu(a, uint32(imm)))
	case kU:
		setRd(sp.alu(0, uint32(imm)))
	case kAuipc:
		setRd(uint32(pc) + uint32(imm)<<12)
	case kMv:
		setRd(a)
	case kB2, kB1:
		if sp.cond(a, b) {
			e.taken, e.target = true, c02Target
		}
	case kJ:
		e.taken, e.target = true, c02Target
	case kJal:
		setRd(uint32(pc) + 4)
		e.taken, e.target = true, c02Target
	case kJalr:
		setRd(uint32(pc) + 4)
		e.taken, e.target = true, int32((a+uint32(imm))&^1)
	case kLoad:
		addr := int32(a + uint32(imm))
		var v uint32
		for i := 0; i < sp.bytes; i++ {
			reads = append(reads, addr+int32(i))
			v |= uint32(uint8(mem[i])) << (8 * uint(i))
		}
		setRd(sx(v, uint(8*sp.bytes)))
	case kStore, kSh:
		addr := int32(a + uint32(imm))
		e.mem = map[int32]int8{}
		for i := 0; i < sp.bytes; i++ {
			writes = append(writes, addr+int32(i))
			e.mem[addr+int32(i)] = int8(b >> (8 * uint(i)))
		}
	case kRet:
		e.ret = true
	}
	return e, reads, writes
}

func observed(exe risc.Execution) (c02Effect, string) {
	var e c02Effect
	if exe.RegisterChange {
		if exe.Register == risc.Zero {
			if exe.RegisterValue != 0 {
				return e, fmt.Sprintf("write of %#x to the zero register is not ignored", uint32(exe.RegisterValue))
			}
		} else {
			e.hasReg, e.reg, e.val = true, exe.Register, exe.RegisterValue
		}
	}
	if exe.MemoryChange {
		e.mem = exe.MemoryChanges
	}
	if exe.PcChange {
		e.taken, e.target = true, exe.NextPc
	}
	e.ret = exe.Return
	return e, ""
}

func sameEffect(a, b c02Effect) bool {
	if a.hasReg != b.hasReg || (a.hasReg && (a.reg != b.reg || a.val != b.val)) || a.taken != b.taken || (a.taken && a.target != b.target) || a.ret != b.ret || len(a.mem) != len(b.mem) {
		return false
	}
	for k, v := range a.mem {
		if w, ok := b.mem[k]; !ok || w != v {
			return false
		}
	}
	return true
}

func sameAddrs(a, b []int32) bool {
	if len(a) != len(b) {
		return false
	}
	for i := range a {
		if a[i] != b[i] {
			return false
		}
	}
	return true
}

type c02Case struct {
	Text string `json:"text"`
	T0   int32  `json:"t0"`
	T1   int32  `json:"t1"`
	T2   int32  `json:"t2"`
	Ra   int32  `json:"ra"`
	Pc   int32  `json:"pc"`
	Mem  []int8 `json:"mem,omitempty"`
	Mn   string `json:"mnemonic"`
	Regs [3]int `json:"shape"` // rd, rs1, rs2 register numbers
	Imm  int32  `json:"imm"`
	Decl bool   `json:"declared_registers_only,omitempty"`
	// register sweep: one probe per (mnemonic, slot, register), see c11OperandCheck
	Probe *c11Case `json:"register_probe,omitempty"`
}

// declared compares the declared register sets with the table.
func (p *c02Probe) declared() (string, string) {
	urd, urs1, urs2, _ := p.sp.uses()
	wantRead, wantWrite := []risc.RegisterType{}, []risc.RegisterType{}
	if urs1 {
		wantRead = append(wantRead, p.rs1)
	}
	if urs2 {
		wantRead = append(wantRead, p.rs2)
	}
	if urd {
		wantWrite = append(wantWrite, p.rd)
	}
	if regSet(p.ins.ReadRegisters()) != regSet(wantRead) || regSet(p.ins.WriteRegisters()) != regSet(wantWrite) {
		return "wrong-declared-registers", fmt.Sprintf("ReadRegisters=%v WriteRegisters=%v, the instruction reads %v and writes %v (zero ignored)", p.ins.ReadRegisters(), p.ins.WriteRegisters(), wantRead, wantWrite)
	}
	return "ok", ""
}

type c02Probe struct {
	sp   *c02Spec
	ins  risc.InstructionRunner
	lbl  map[string]int32
	ctx  *risc.Context
	text string
	rd   risc.RegisterType
	rs1  risc.RegisterType
	rs2  risc.RegisterType
	imm  int32
}

const raInit = 0x00c0ffee

// run executes the probe with the given register file; returns class, detail.
func (p *c02Probe) run(t0, t1, t2, pc int32, mem []int8) (string, string) {
	regs := map[risc.RegisterType]int32{risc.T0: t0, risc.T1: t1, risc.T2: t2, risc.Ra: raInit, risc.Zero: 0}
	for k := range p.ctx.Registers {
		delete(p.ctx.Registers, k)
	}
	for k, v := range regs {
		if k != risc.Zero {
			p.ctx.Registers[k] = v
		}
	}
	sp := p.sp
	a, b := uint32(regs[p.rs1]), uint32(regs[p.rs2])
	want, wantR, wantW := sp.expect(p.rd, p.rs1, p.rs2, a, b, p.imm, pc, mem)
	p.ins.Forward(risc.Forward{})
	gotR := p.ins.MemoryRead(p.ctx, 0)
	gotW := p.ins.MemoryWrite(p.ctx, 0)
	if !sameAddrs(gotR, wantR) {
		return "wrong-read-addresses", fmt.Sprintf("MemoryRead=%v want %v", gotR, wantR)
	}
	if !sameAddrs(gotW, wantW) {
		return "wrong-write-addresses", fmt.Sprintf("MemoryWrite=%v want %v", gotW, wantW)
	}
	exe, err := p.ins.Run(p.ctx, p.lbl, pc, mem, 0)
	if err != nil {
		return "error", err.Error()
	}
	got, msg := observed(exe)
	if msg != "" {
		return "zero-register", msg
	}
	if !sameEffect(got, want) {
		return "wrong-effect", fmt.Sprintf("observed {%v}, RV32IM {%v}", got, want)
	}
	// no other architectural register may change behind the Execution's back
	for k, v := range regs {
		if k == risc.Zero {
			if p.ctx.Registers[risc.Zero] != 0 {
				return "zero-register", "the zero register holds a non-zero value after Run"
			}
			continue
		}
		if p.ctx.Registers[k] != v {
			return "side-effect", fmt.Sprintf("Run changed %v from %#x to %#x outside its Execution result", k, uint32(v), uint32(p.ctx.Registers[k]))
		}
	}
	return "ok", ""
}

func newProbe(sp *c02Spec, rd, rs1, rs2 risc.RegisterType, imm int32) (*c02Probe, error) {
	text := c02Text(sp, rd, rs1, rs2, imm)
	app, err := risc.Parse(text)
	if err != nil {
		return nil, err
	}
	p := &c02Probe{sp: sp, ins: app.Instructions[0], lbl: app.Labels, ctx: risc.NewContext(false, 16, false), text: text, rd: rd, rs1: rs1, rs2: rs2, imm: imm}
	urd, urs1, urs2, _ := sp.uses()
	if !urd {
		p.rd = risc.Zero
	}
	if !urs1 {
		p.rs1 = risc.Zero
	}
	if !urs2 {
		p.rs2 = risc.Zero
	}
	return p, nil
}

func regSet(rs []risc.RegisterType) string {
	m := map[int]bool{}
	for _, r := range rs {
		if r != risc.Zero {
			m[int(r)] = true
		}
	}
	var ks []int
	for k := range m {
		ks = append(ks, k)
	}
	sort.Ints(ks)
	return fmt.Sprint(ks)
}

func lattice(thorough bool) []uint32 {
	base := []uint32{0, 1, 2, 0xffffffff, 0xfffffffe, 31, 32, 33, 63, 0x7f, 0x80, 0xff, 0x7fff, 0x8000, 0xffff,
		0x80000000, 0x7fffffff, 0x80000001, 0xaaaaaaaa, 0x55555555, 4, 5, 7, 64, 100, 0xffffff80, 0xffff8000}
	for _, k := range []uint{8, 16, 24, 30, 31} {
		base = append(base, 1<<k, 1<<k+1, 1<<k-1)
	}
	if thorough {
		for k := uint(0); k < 32; k++ {
			base = append(base, 1<<k, 1<<k-1, ^(uint32(1) << k), uint32(0xdeadbeef)>>k, uint32(0x12345678)<<k|uint32(k))
		}
		for i := uint32(3); i < 40; i++ {
			base = append(base, i, -i)
		}
	}
	seen := map[uint32]bool{}
	var out []uint32
	for _, v := range base {
		if !seen[v] {
			seen[v] = true
			out = append(out, v)
		}
	}
	return out
}

var c02Imms = []int32{0, 1, -1, 2, 31, 32, 33, 2047, -2048, 5, -7, 4, 1 << 20, -(1 << 19)}
var c02ByteLattice = []int8{0, 1, 0x7f, -128, -1, 0x55}

func c02Run(c *RunCtx) {
	thorough := c.Thorough()
	L := lattice(thorough)
	const poisonA, poisonB = int32(0x5a5a5a5a), int32(-0x12345679)
	rds := []risc.RegisterType{risc.Zero, risc.T0}
	rs1s := []risc.RegisterType{risc.Zero, risc.T0, risc.T1}
	rs2s := []risc.RegisterType{risc.Zero, risc.T0, risc.T1, risc.T2}
	item := 0
	triples := map[string]bool{}
	reported := map[string]int{}
	fail := func(p *c02Probe, class, detail string, t0, t1, t2, pc int32, mem []int8) {
		c.Outcome(class)
		g := p.sp.mn + "/" + class
		if reported[g] >= 40 {
			return
		}
		reported[g]++
		c.Fail(g, class, c02Case{Text: p.text, T0: t0, T1: t1, T2: t2, Ra: raInit, Pc: pc, Mem: mem, Mn: p.sp.mn, Regs: [3]int{int(p.rd), int(p.rs1), int(p.rs2)}, Imm: p.imm}, detail)
	}
	opclass := func(v uint32) string {
		switch {
		case v == 0:
			return "0"
		case v == 0x80000000:
			return "min"
		case int32(v) < 0:
			return "neg"
		case v < 32:
			return "small"
		default:
			return "pos"
		}
	}
	eval := func(p *c02Probe, x, y uint32, pc int32, mem []int8) {
		// place x in rs1's register, y in rs2's register, poison elsewhere
		for _, poison := range []int32{poisonA, poisonB} {
			regs := map[risc.RegisterType]int32{risc.T0: poison, risc.T1: poison, risc.T2: poison}
			if p.rs2 != risc.Zero {
				regs[p.rs2] = int32(y)
			}
			if p.rs1 != risc.Zero {
				regs[p.rs1] = int32(x)
			}
			c.Sum.Evaluations++
			class, detail := guard(func() (string, string) { return p.run(regs[risc.T0], regs[risc.T1], regs[risc.T2], pc, mem) })
			if class != "ok" {
				fail(p, class, detail, regs[risc.T0], regs[risc.T1], regs[risc.T2], pc, mem)
			} else {
				c.Sum.Outcomes["ok"]++
			}
		}
		triples[fmt.Sprintf("%s/%d%d%d/%s,%s", p.sp.mn, p.rd, p.rs1, p.rs2, opclass(x), opclass(y))] = true
	}
	for si := range c02Specs {
		sp := &c02Specs[si]
		urd, urs1, urs2, uimm := sp.uses()
		for _, rd := range rds {
			if !urd && rd != risc.Zero {
				continue
			}
			for _, rs1 := range rs1s {
				if !urs1 && rs1 != risc.Zero {
					continue
				}
				for _, rs2 := range rs2s {
					if !urs2 && rs2 != risc.Zero {
						continue
					}
					imms := []int32{0}
					if uimm {
						imms = c02Imms
					}
					for _, imm := range imms {
						if !c.Mine(item) {
							item++
							continue
						}
						item++
						p, err := newProbe(sp, rd, rs1, rs2, imm)
						if err != nil {
							c.Fail(sp.mn+"/parse", "parse-error", map[string]any{"text": c02Text(sp, rd, rs1, rs2, imm)}, err.Error())
							continue
						}
						// declared register sets
						if class, detail := p.declared(); class != "ok" {
							c.Outcome(class)
							c.Fail(sp.mn+"/declared-registers", class, c02Case{Text: p.text, Mn: sp.mn, Regs: [3]int{int(p.rd), int(p.rs1), int(p.rs2)}, Imm: imm, Decl: true}, detail)
						}
						xs, ys := L, L
						if p.rs1 == risc.Zero {
							xs = []uint32{0}
						}
						if p.rs2 == risc.Zero {
							ys = []uint32{0}
						}
						pcs := []int32{0}
						if sp.kind == kAuipc || sp.kind == kJal || sp.kind == kJalr {
							pcs = []int32{0, 4, 40}
						}
						for _, pc := range pcs {
							for _, x := range xs {
								if sp.kind == kLoad {
									// memory contents lattices
									switch sp.bytes {
									case 1:
										for v := 0; v < 256; v++ {
											eval(p, x, 0, pc, []int8{int8(v)})
										}
									case 2:
										step := 257
										if thorough || x == 0 {
											step = 1
										}
										for v := 0; v < 65536; v += step {
											eval(p, x, 0, pc, []int8{int8(v), int8(v >> 8)})
										}
									case 4:
										for _, b0 := range c02ByteLattice {
											for _, b1 := range c02ByteLattice {
												for _, b2 := range c02ByteLattice {
													for _, b3 := range c02ByteLattice {
														eval(p, x, 0, pc, []int8{b0, b1, b2, b3})
													}
												}
											}
										}
									}
									continue
								}
								for _, y := range ys {
									if p.rs2 == p.rs1 && y != x {
										continue
									}
									if sp.skipB != nil && sp.skipB(y) {
										continue
									}
									eval(p, x, y, pc, nil)
								}
							}
						}
						if len(c.Sum.Samples) < 3 && (item%37 == 0) {
							c.Sample(map[string]any{"program": strings.Split(p.text, "\n")[0], "operand_lattice_size": len(L), "example": map[string]any{"rs1": xs[len(xs)/2], "rs2": ys[len(ys)/3]}})
						}
					}
				}
			}
		}
	}
	// register sweep: every mnemonic x every register slot x all 32 registers,
	// declared sets and one execution with distinct values in the named registers
	for _, pr := range c11OperandProbes() {
		if pr.Kind != "register-name" || strings.HasPrefix(pr.Operand, "$") {
			continue
		}
		if !c.Mine(item) {
			item++
			continue
		}
		item++
		c.Sum.Evaluations++
		class, detail, _ := c11OperandCheck(pr)
		if class != "ok" {
			c.Outcome(class)
			k := pr
			c.Fail(pr.Mn+"/register-sweep", class, c02Case{Text: pr.Text, Mn: pr.Mn, Probe: &k}, detail)
		} else {
			c.Sum.Outcomes["ok"]++
			triples[fmt.Sprintf("%s/%s=%s", pr.Mn, pr.Slot, pr.Operand)] = true
		}
	}
	c.Sum.Nontrivial = int64(len(triples))
	c.Sum.States = c.Sum.Evaluations
	c.Sum.Transitions = c.Sum.Evaluations
	c.Sum.Validated = c.Sum.Evaluations
	c.Sum.Rule = fmt.Sprintf("IX: 45 mnemonics x register shapes (rd in {zero,t0}, rs1 in {zero,t0,t1}, rs2 in {zero,t0,t1,t2}) x all pairs of a %d-value boundary lattice x %d immediates x byte lattices for loads (lb all 256, lh all 65536 for base 0, lw 6^4) x 2 poison values in unread registers; plus a register sweep (every mnemonic x every register slot x all 32 registers: declared sets, accessed addresses and one execution with distinct values in the named registers); non-trivial = distinct (mnemonic, register shape, operand class pair) triples and (mnemonic, slot, register) sweep points, operand classes {0, small, pos, neg, min}", len(L), len(c02Imms))
	c.Cap("operand pairs are exhaustive over the lattice, not over all 2^64 pairs of int32 values")
	c.Assume("the RV32IM table in cmd/worker/c02.go (uint32 arithmetic) is the specification; div/rem by zero are excluded here and owned by C07")
}

func init() {
	register("C02", &Check{
		Shards: func(tier string) int { return 64 },
		Run:    c02Run,
		Replay: func(prop string, raw json.RawMessage) (string, string) {
			var k c02Case
			if err := json.Unmarshal(raw, &k); err != nil {
				return "ok", err.Error()
			}
			if k.Probe != nil {
				class, detail, _ := c11OperandCheck(*k.Probe)
				return class, detail
			}
			var sp *c02Spec
			for i := range c02Specs {
				if c02Specs[i].mn == k.Mn {
					sp = &c02Specs[i]
				}
			}
			p, err := newProbe(sp, risc.RegisterType(k.Regs[0]), risc.RegisterType(k.Regs[1]), risc.RegisterType(k.Regs[2]), k.Imm)
			if err != nil {
				return "parse-error", err.Error()
			}
			if k.Decl {
				return p.declared()
			}
			return guard(func() (string, string) { return p.run(k.T0, k.T1, k.T2, k.Pc, k.Mem) })
		},
	})
}
