package main

import (
	"crypto/sha256"
	"encoding/hex"
	"encoding/json"
	"fmt"
	"os"
	"os/exec"
	"sort"
	"strings"

	"github.com/teivah/majorana/common/ds"
	"github.com/teivah/majorana/proc/comp"
	"github.com/teivah/majorana/risc"
	"github.com/teivah/majorana/verifrt"
)

// C08 — runs are deterministic and isolated.
//
// (i)   map-iteration orders: for every target program and configuration the
//       default execution (canonical orders) is compared with every execution
//       that deviates at up to d choice points (every `range` over a map with
//       >= 2 keys is a choice point);
// (ii)  iterator goroutines (comp.Queue.Iterator, ds.StableMapIteration) under
//       a cooperative scheduler, all interleavings;
// (iii) histories: Y alone in a fresh process == Y after X == Y on a machine
//       built while X's machine is alive == Y run twice on one parsed program;
// (iv)  two machines interleaved at cycle boundaries by the controlled
//       scheduler (separate parsed programs, and one shared parsed program),
//       all interleavings with at most 1 preemption.

func digest(o *pxOutcome) string {
	h := sha256.New()
	fmt.Fprintf(h, "%s|%d|%v|", o.Class, o.Cycles, o.Regs)
	for _, b := range o.Mem {
		h.Write([]byte{byte(b)})
	}
	return hex.EncodeToString(h.Sum(nil)[:8])
}

func describeDiff(a, b *pxOutcome) string {
	if a.Class != b.Class {
		return fmt.Sprintf("outcome %s (%s) vs %s (%s)", a.Class, a.Detail, b.Class, b.Detail)
	}
	if a.Cycles != b.Cycles {
		return fmt.Sprintf("cycles %d vs %d", a.Cycles, b.Cycles)
	}
	for r := 1; r < 32; r++ {
		if a.Regs[r] != b.Regs[r] {
			return fmt.Sprintf("x%d = %d vs %d", r, a.Regs[r], b.Regs[r])
		}
	}
	for i := range a.Mem {
		if i < len(b.Mem) && a.Mem[i] != b.Mem[i] {
			return fmt.Sprintf("mem[%d] = %d vs %d", i, a.Mem[i], b.Mem[i])
		}
	}
	return "identical"
}

var c08Alpha = []string{
	"sw t0, 0(zero)", "sb t1, 1(zero)", "lw t2, 0(zero)", "lw t1, 64(zero)", "addi t0, t0, 1", "addi t0, zero, 3", "bne t0, t1, end",
}

func c08Targets(n int) []string {
	var out []string
	for k := 0; k <= n; k++ {
		seqs(len(c08Alpha), k, func(idx []int) {
			var b []string
			for _, i := range idx {
				b = append(b, c08Alpha[i])
			}
			out = append(out, lines(strings.Join(b, "\n"), "end:", post))
		})
	}
	return out
}

type c08Case struct {
	Part    string `json:"part"`
	Cfg     string `json:"cfg,omitempty"`
	Prog    string `json:"prog,omitempty"`
	Prog2   string `json:"prog2,omitempty"`
	Init    string `json:"init,omitempty"`
	Choices []int  `json:"choices,omitempty"`
	Mode    string `json:"mode,omitempty"`
	Harness string `json:"harness,omitempty"`
}

// ---- (i) map orders

func c08MapOrders(c *RunCtx, item *int) {
	depth := 1
	n := 2
	verifrt.FullPermLimit = 3
	if c.Thorough() {
		verifrt.FullPermLimit = 4
	}
	short := map[string]bool{}
	for _, t := range c08Targets(1) {
		short[t] = true
	}
	in := pxInitByID("pos")
	type target struct {
		text    string
		msiOnly bool
		cores   int // > 0: only the MSI configurations with exactly that many cores
	}
	var targets []target
	for _, t := range c08Targets(n) {
		targets = append(targets, target{t, false, 0})
	}
	// several cores sharing one line (directory maps with several entries per line): MSI variants only
	sameLine := []string{"lw t0, 0(zero)", "lw t1, 4(zero)", "lw t2, 8(zero)", "sw t0, 12(zero)"}
	maxSame := 3
	if c.Thorough() {
		maxSame = 4
	}
	for k := 3; k <= maxSame; k++ {
		seqs(len(sameLine), k, func(idx []int) {
			var b []string
			for _, i := range idx {
				b = append(b, sameLine[i])
			}
			targets = append(targets, target{lines(strings.Join(b, "\n"), "end:", post), true, 0})
		})
	}
	// one core owning two lines that two other cores want at the same time: 3 and 4 cores only
	twoLines := []string{"sw t0, 0(zero)", "sw t1, 64(zero)", "lw t2, 0(zero)", "lw t1, 64(zero)", "sw t2, 64(zero)"}
	nTwo := 0
	seqs(len(twoLines), 4, func(idx []int) {
		var b []string
		stores := 0
		for _, i := range idx {
			b = append(b, twoLines[i])
			if strings.HasPrefix(twoLines[i], "sw") {
				stores++
			}
		}
		// quick: programs that begin with a store to each line; thorough: all of them
		if !c.Thorough() && !(idx[0] == 0 && idx[1] == 1) && !(idx[0] == 1 && idx[1] == 0) {
			return
		}
		nTwo++
		targets = append(targets, target{lines(strings.Join(b, "\n"), "end:", post), true, 0})
	})
	twoLineFrom := len(targets) - nTwo
	// two cores sharing a line while one of them is busy with another line: a
	// further load of the shared line can go to either holder (2 cores only)
	// (the control unit learns who holds a line only when the fetch has completed,
	// so the loads under test are held back by a register dependence)
	busy := []string{"lw t0, 0(zero)", "lw t1, 4(zero)", "lw t2, 256(zero)", "add t3, t0, t1"}
	maxBusy := 2
	if c.Thorough() {
		maxBusy = 3
	}
	for k := 2; k <= maxBusy; k++ {
		seqs(len(busy), k, func(idx []int) {
			b := []string{"lw t0, 0(zero)", "lw t1, 4(zero)", "add t3, t0, t1"}
			for _, i := range idx {
				b = append(b, busy[i])
			}
			targets = append(targets, target{lines(strings.Join(b, "\n"), "end:", post), true, 2})
		})
	}
	for ti, tg := range targets {
		text := tg.text
		ref := refRun(text, in)
		if !ref.WellFormed || ref.Err != "" {
			continue
		}
		for ci := range pxConfigs {
			cfg := &pxConfigs[ci]
			if tg.cores > 0 {
				if famOrder[cfg.Fam] < 10 || cfg.P != tg.cores {
					continue
				}
			} else if tg.msiOnly && ti < twoLineFrom && (famOrder[cfg.Fam] < 10 || cfg.P < 2 || (!c.Thorough() && cfg.P > 3)) {
				continue
			}
			if tg.cores == 0 && tg.msiOnly && ti >= twoLineFrom && (famOrder[cfg.Fam] < 10 || cfg.P < 3) {
				continue
			}
			*item++
			if !c.Mine(*item) {
				continue
			}
			base := pxExec(cfg, text, in, &ref, true, nil, nil)
			c.Sum.Evaluations++
			// replaying the default twice must give the same thing
			again := pxExec(cfg, text, in, &ref, true, nil, nil)
			if digest(&base) != digest(&again) {
				c.Sum.Outcomes["i:replay-differs"]++
				c.Fail(cfg.Fam+"/map-order/replay-differs", "nondeterministic", c08Case{Part: "map-order", Cfg: cfg.Name, Prog: text, Init: in.ID}, "two default executions differ: "+describeDiff(&base, &again))
				continue
			}
			points := 0
			var explore func(prefix []int, trace []verifrt.Point, from, left int)
			explore = func(prefix []int, trace []verifrt.Point, from, left int) {
				for i := from; i < len(trace); i++ {
					points++
					for alt := 1; alt < trace[i].Alts; alt++ {
						p := make([]int, i+1)
						copy(p, prefix)
						p[i] = alt
						out := pxExec(cfg, text, in, &ref, true, p, nil)
						c.Sum.Evaluations++
						c.Sum.States++
						c.Sum.Validated++
						c.Sum.Transitions += int64(len(out.Trace))
						if out.Class == "replay-divergence" {
							c.Sum.Outcomes["i:replay-divergence"]++
							c.Fail(cfg.Fam+"/map-order/replay-divergence", "replay-divergence", c08Case{Part: "map-order", Cfg: cfg.Name, Prog: text, Init: in.ID, Choices: p}, "the choice prefix does not replay")
							continue
						}
						if digest(&out) != digest(&base) {
							c.Sum.Outcomes["i:order-dependent"]++
							c.Fail(cfg.Fam+"/map-order/order-dependent", "order-dependent", c08Case{Part: "map-order", Cfg: cfg.Name, Prog: text, Init: in.ID, Choices: p},
								fmt.Sprintf("map order %d of %d at choice point %d (map with %d keys) changes the result: %s", alt, trace[i].Alts, i, trace[i].N, describeDiff(&base, &out)))
						} else {
							c.Sum.Outcomes["i:same"]++
						}
						if left > 1 {
							explore(p, out.Trace, i+1, left-1)
						}
					}
				}
			}
			d := depth
			if c.Thorough() && short[text] {
				d = 2 // two deviations for the programs of length <= 1
			}
			explore(nil, base.Trace, 0, d)
			if points > 0 {
				c.Sum.Nontrivial++
			}
			c.AddExtra("map_order_choice_points", float64(len(base.Trace)))
			if *item%211 == 1 {
				c.Sample(map[string]any{"part": "map-order", "cfg": cfg.Name, "program": strings.Split(strings.TrimSpace(text), "\n"), "choice_points_in_default_execution": len(base.Trace)})
			}
		}
	}
	verifrt.FullPermLimit = 4
}

// ---- (iii) histories

type freshResult struct {
	Digest string `json:"digest"`
	Class  string `json:"class"`
	Cycles int    `json:"cycles"`
}

// freshRun executes Y in a brand-new process.
func freshRun(cfg, init, text string) (freshResult, error) {
	self, err := os.Executable()
	if err != nil {
		return freshResult{}, err
	}
	out, err := exec.Command(self, "fresh", cfg, init, text).Output()
	if err != nil {
		return freshResult{}, err
	}
	var fr freshResult
	if err := json.Unmarshal(out, &fr); err != nil {
		return freshResult{}, fmt.Errorf("%v: %s", err, out)
	}
	return fr, nil
}

func c08HistoryOne(cfg *pxConfig, x, y string, in *pxInit, mode string) (got pxOutcome, ok bool) {
	// the reference is only used for the cycle budget here: the oracle is "same as in a fresh
	// process", so programs the reference rejects (out-of-bounds accesses) are welcome
	refX, refY := refRun(x, in), refRun(y, in)
	if refX.Steps < 20 {
		refX.Steps = 20
	}
	if refY.Steps < 20 {
		refY.Steps = 20
	}
	switch mode {
	case "after":
		pxExec(cfg, x, in, &refX, false, nil, nil)
		return pxExec(cfg, y, in, &refY, false, nil, nil), true
	case "machine-built-while-other-alive":
		vx, vy := cfg.New(pxMemSize), cfg.New(pxMemSize)
		in.apply(vx.Context())
		in.apply(vy.Context())
		ax, _ := risc.Parse(x)
		ay, _ := risc.Parse(y)
		pxExecOn(vx, ax, &refX, false, nil, nil)
		return pxExecOn(vy, ay, &refY, false, nil, nil), true
	case "shared-application-second-run":
		ay, _ := risc.Parse(y)
		v1, v2 := cfg.New(pxMemSize), cfg.New(pxMemSize)
		in.apply(v1.Context())
		in.apply(v2.Context())
		pxExecOn(v1, ay, &refY, false, nil, nil)
		return pxExecOn(v2, ay, &refY, false, nil, nil), true
	}
	return got, false
}

// c08LoopPrograms: a loop entered in the middle whose exit branch depends on a
// load that misses, so that the next iteration is executed speculatively and
// flushed; the same static load runs both with and without a forwarded base.
// They use the "loop" initial state (stop flag clear at 1024, set at 1088).
func c08LoopPrograms() []string {
	var out []string
	for _, load := range []string{"lw t3, 0(t0)", "lb t3, 1(t0)"} {
		for _, exit := range []string{"bnez t1, exit", "bne t1, zero, exit"} {
			for _, step := range []string{"addi t0, t0, 32", "addi t0, t0, 64"} {
				out = append(out, lines("li t0, 256", "li t4, 960", "li a0, 0", "j first", "loop:", step, "first:", load,
					"add a0, a0, t3", "addi t4, t4, 64", "lw t1, 0(t4)", exit, "j loop", "exit:", "sw a0, 0(zero)", "ret"))
			}
		}
	}
	return out
}

func c08Histories(c *RunCtx, item *int) {
	c08HistoriesOf(c, item, c08LoopPrograms(), pxInitByID("loop"), "loop-entered-in-the-middle")
	progs := c08Targets(1)
	extra := []string{
		// accesses to a line that lies wholly beyond the end of memory (variants that tolerate them
		// must still be history-independent; the others panic identically every time)
		lines("sw t0, 8448(zero)", "end:", post),
		lines("lw t1, 8448(zero)", "end:", post),
		lines("addi t0, t0, 1\naddi t1, t0, 1\nadd t2, t0, t1", "end:", post),
		lines("lw t0, 0(zero)\naddi t0, t0, 1\nsw t0, 0(zero)\nlw t1, 0(zero)", "end:", post),
		lines("li t3, 2\nl0:\naddi t0, t0, 1\naddi t3, t3, -1\nbnez t3, l0", "end:", post),
	}
	progs = append(progs, extra...)
	if c.Thorough() {
		progs = append(progs, c08Targets(2)[8:28]...)
	}
	c08HistoriesOf(c, item, progs, pxInitByID("pos"), "short")
}

func c08HistoriesOf(c *RunCtx, item *int, progs []string, in *pxInit, family string) {
	for ci := range pxConfigs {
		cfg := &pxConfigs[ci]
		for yi, y := range progs {
			*item++
			if !c.Mine(*item) {
				continue
			}
			fr, err := freshRun(cfg.Name, in.ID, y)
			if err != nil {
				c.Cap("fresh-process run failed: " + err.Error())
				continue
			}
			c.Sum.Evaluations++
			comparable1 := false
			for xi, x := range progs {
				for _, mode := range []string{"after", "machine-built-while-other-alive", "shared-application-second-run"} {
					if mode == "shared-application-second-run" && xi != 0 {
						continue // does not depend on X
					}
					got, ok := c08HistoryOne(cfg, x, y, in, mode)
					if !ok {
						continue
					}
					comparable1 = true
					c.Sum.Evaluations++
					c.Sum.States++
					c.Sum.Validated++
					c.Sum.Transitions++
					if digest(&got) != fr.Digest {
						c.Sum.Outcomes["iii:history-dependent"]++
						c.Fail(cfg.Fam+"/history/"+mode, "history-dependent", c08Case{Part: "history", Cfg: cfg.Name, Prog: y, Prog2: x, Init: in.ID, Mode: mode},
							fmt.Sprintf("Y in a fresh process: %s, %d cycles; %s: %s, %d cycles (%s)", fr.Class, fr.Cycles, mode, got.Class, got.Cycles, got.Detail))
					} else {
						c.Sum.Outcomes["iii:same"]++
					}
				}
			}
			if comparable1 {
				c.Sum.Nontrivial++
			}
			if yi == 3 && ci%7 == 0 {
				c.Sample(map[string]any{"part": "history", "family": family, "cfg": cfg.Name, "Y": strings.Split(strings.TrimSpace(y), "\n"), "X_programs": len(progs), "modes": 3})
			}
		}
	}
}

// ---- (ii) iterator goroutines under the cooperative scheduler

// schedExplore runs body under every schedule (all alternatives at every
// scheduling point, no preemption bound); check is called after each run.
func schedExplore(c *RunCtx, name string, maxRuns int, run func(prefix []int) (trace []verifrt.Point, class, detail string)) {
	runs := 0
	capped := false
	var rec func(prefix []int)
	rec = func(prefix []int) {
		if runs >= maxRuns {
			capped = true
			return
		}
		trace, class, detail := run(prefix)
		runs++
		c.Sum.Evaluations++
		c.Sum.States++
		c.Sum.Validated++
		c.Sum.Transitions += int64(len(trace))
		c.Sum.Outcomes["ii:"+class]++
		if class != "ok" {
			ch := make([]int, len(trace))
			for i, p := range trace {
				ch[i] = p.Chosen
			}
			c.Fail("iterator/"+name+"/"+class, class, c08Case{Part: "iterator", Harness: name, Choices: ch}, detail)
		}
		for i := len(prefix); i < len(trace); i++ {
			for alt := 1; alt < trace[i].Alts; alt++ {
				p := make([]int, i+1)
				for j := 0; j < i; j++ {
					p[j] = trace[j].Chosen
				}
				p[i] = alt
				rec(p)
			}
		}
	}
	rec(nil)
	if capped {
		c.Cap(fmt.Sprintf("iterator harness %s: schedule cap %d reached", name, maxRuns))
	}
	if runs > 1 {
		c.Sum.Nontrivial++
	}
	c.AddExtra("iterator_schedules", float64(runs))
}

type iterHarness struct {
	name string
	body func() (class, detail string)
}

func queueHarness(n int, removeMask int, abandonAfter int, pushAfter bool) iterHarness {
	name := fmt.Sprintf("queue-n%d-remove%b-abandon%d-push%v", n, removeMask, abandonAfter, pushAfter)
	return iterHarness{name, func() (string, string) {
		q := comp.NewQueue[int](8)
		var model []int
		for i := 0; i < n; i++ {
			q.Push(10 + i)
			model = append(model, 10+i)
		}
		iterate := func(mask, abandon int) (string, string) {
			it := q.Iterator()
			var got []int
			var keep []int
			i := 0
			for {
				e, ok := verifrt.Recv(it)
				if !ok {
					break
				}
				v := q.Value(e)
				got = append(got, v)
				if mask&(1<<i) != 0 {
					q.Remove(e)
				} else {
					keep = append(keep, v)
				}
				i++
				if abandon >= 0 && i > abandon {
					break
				}
			}
			want := model
			if abandon >= 0 && abandon+1 < len(model) {
				want = model[:abandon+1]
				keep = append(keep, model[abandon+1:]...)
			}
			if fmt.Sprint(got) != fmt.Sprint(want) {
				return "wrong-iteration", fmt.Sprintf("iteration delivered %v, the queue held %v", got, want)
			}
			model = keep
			return "ok", ""
		}
		if cl, d := iterate(removeMask, abandonAfter); cl != "ok" {
			return cl, d
		}
		if pushAfter {
			q.Push(99)
			model = append(model, 99)
		}
		if cl, d := iterate(0, -1); cl != "ok" {
			return cl, "second iteration: " + d
		}
		if q.Length() != len(model) {
			return "wrong-length", fmt.Sprintf("Length()=%d, want %d", q.Length(), len(model))
		}
		return "ok", ""
	}}
}

func stableMapHarness(n int, abandonAfter int) iterHarness {
	name := fmt.Sprintf("stablemap-n%d-abandon%d", n, abandonAfter)
	return iterHarness{name, func() (string, string) {
		m := map[int]string{}
		var want []int
		for i := 0; i < n; i++ {
			m[30-7*i] = fmt.Sprint(i)
			want = append(want, 30-7*i)
		}
		sort.Ints(want)
		ch := ds.StableMapIteration[int, string, int](m, []func(int) int{func(k int) int { return k }})
		var got []int
		for {
			e, ok := verifrt.Recv(ch)
			if !ok {
				break
			}
			if m[e.K] != e.V {
				return "wrong-value", fmt.Sprintf("key %d delivered with value %q", e.K, e.V)
			}
			got = append(got, e.K)
			if abandonAfter >= 0 && len(got) > abandonAfter {
				break
			}
		}
		if abandonAfter >= 0 && abandonAfter+1 < len(want) {
			want = want[:abandonAfter+1]
		}
		if fmt.Sprint(got) != fmt.Sprint(want) {
			return "wrong-iteration", fmt.Sprintf("delivered %v, want sorted %v", got, want)
		}
		return "ok", ""
	}}
}

func c08IterHarnesses(thorough bool) []iterHarness {
	var hs []iterHarness
	maxN := 3
	if thorough {
		maxN = 4
	}
	for n := 0; n <= maxN; n++ {
		for mask := 0; mask < 1<<n; mask++ {
			hs = append(hs, queueHarness(n, mask, -1, false))
		}
		for ab := 0; ab < n; ab++ {
			hs = append(hs, queueHarness(n, 1<<ab, ab, true))
			hs = append(hs, queueHarness(n, 0, ab, false))
		}
	}
	for n := 0; n <= 3; n++ {
		hs = append(hs, stableMapHarness(n, -1))
		for ab := 0; ab < n; ab++ {
			hs = append(hs, stableMapHarness(n, ab))
		}
	}
	return hs
}

func runIterHarness(h iterHarness, prefix []int) (trace []verifrt.Point, class, detail string) {
	verifrt.Begin(1<<40, 1<<40, 1<<40, true, prefix)
	verifrt.MapOrderChoices = false
	defer func() {
		trace = append([]verifrt.Point(nil), verifrt.Trace...)
		verifrt.MapOrderChoices = true
		verifrt.End()
		if r := recover(); r != nil {
			if a, ok := r.(verifrt.Abort); ok && a.Reason == "deadlock" {
				class, detail = "deadlock", "the consumer is blocked and no other goroutine can run"
			} else if ok && a.Reason == "replay-divergence" {
				class, detail = "replay-divergence", a.Error()
			} else {
				class, detail = "panic", fmt.Sprint(r)
			}
		}
	}()
	dl, failure := verifrt.SchedRun(true, false, func() { class, detail = h.body() })
	if failure != "" {
		return nil, "panic", failure
	}
	if dl && class == "ok" {
		class, detail = "deadlock", "scheduler found no runnable goroutine"
	}
	return
}

func c08Iterators(c *RunCtx, item *int) {
	for _, h := range c08IterHarnesses(c.Thorough()) {
		*item++
		if !c.Mine(*item) {
			continue
		}
		h := h
		schedExplore(c, h.name, 200000, func(prefix []int) ([]verifrt.Point, string, string) { return runIterHarness(h, prefix) })
		if *item%9 == 1 {
			c.Sample(map[string]any{"part": "iterator", "harness": h.name})
		}
	}
}

// ---- (iv) two machines interleaved at cycle boundaries

// dualRun runs program a and b on two machines of cfg concurrently under the
// scheduler; shared = both machines run the same parsed Application.
func dualRun(cfg *pxConfig, a, b string, in *pxInit, shared bool, prefix []int) (oa, ob pxOutcome, trace []verifrt.Point, fail string) {
	refA, refB := refRun(a, in), refRun(b, in)
	appA, _ := risc.Parse(a)
	appB := appA
	if !shared {
		appB, _ = risc.Parse(b)
	}
	va, vb := cfg.New(pxMemSize), cfg.New(pxMemSize)
	in.apply(va.Context())
	in.apply(vb.Context())
	verifrt.Begin(cycleBound(refA.Steps)+cycleBound(refB.Steps), 4_000_000, 800_000_000, true, prefix)
	verifrt.MapOrderChoices = false
	finish := func(vm vmIface, ref *refResult, cycles int, err error, out *pxOutcome) {
		out.Cycles = cycles
		if err != nil {
			out.Class, out.Detail = "error", err.Error()
			return
		}
		out.Regs = regsOf(vm.Context())
		out.Regs[0] = 0
		out.Mem = vm.Context().Memory
		out.Class = "finished"
	}
	defer func() {
		trace = append([]verifrt.Point(nil), verifrt.Trace...)
		verifrt.MapOrderChoices = true
		verifrt.End()
		if r := recover(); r != nil {
			fail = fmt.Sprint(r)
		}
	}()
	_, failure := verifrt.SchedRun(false, true,
		func() { cy, err := va.Run(appA); finish(va, &refA, cy, err, &oa) },
		func() { cy, err := vb.Run(appB); finish(vb, &refB, cy, err, &ob) })
	fail = failure
	return
}

func soloRun(cfg *pxConfig, text string, in *pxInit) pxOutcome {
	app, _ := risc.Parse(text)
	vm := cfg.New(pxMemSize)
	in.apply(vm.Context())
	var out pxOutcome
	func() {
		defer func() {
			if r := recover(); r != nil {
				out.Class, out.Detail = "panic", fmt.Sprint(r)
			}
		}()
		verifrt.Begin(1<<40, 1<<40, 1<<40, false, nil)
		defer verifrt.End()
		cy, err := vm.Run(app)
		out.Cycles = cy
		if err != nil {
			out.Class, out.Detail = "error", err.Error()
			return
		}
		out.Regs = regsOf(vm.Context())
		out.Regs[0] = 0
		out.Mem = vm.Context().Memory
		out.Class = "finished"
	}()
	return out
}

func c08DualCheck(cfg *pxConfig, a, b string, in *pxInit, shared bool, prefix []int) (class, detail string, trace []verifrt.Point) {
	sa, sb := soloRun(cfg, a, in), soloRun(cfg, b, in)
	oa, ob, trace, fail := dualRun(cfg, a, b, in, shared, prefix)
	if fail != "" {
		if sa.Class == "panic" || sb.Class == "panic" {
			return "ok", "", trace // the program already panics alone: C07's
		}
		return "concurrent-failure", fail, trace
	}
	if digest(&oa) != digest(&sa) {
		return "interference", "machine A: alone vs interleaved: " + describeDiff(&sa, &oa), trace
	}
	if digest(&ob) != digest(&sb) {
		return "interference", "machine B: alone vs interleaved: " + describeDiff(&sb, &ob), trace
	}
	return "ok", "", trace
}

func c08Dual(c *RunCtx, item *int) {
	in := pxInitByID("pos")
	p1 := lines("addi t0, t0, 1\naddi t1, t0, 1\nadd t2, t0, t1\nsw t2, 0(zero)", "end:", post)
	p2 := lines("lw t0, 0(zero)\naddi t0, t0, 1\nbne t0, t1, end\nsw t0, 64(zero)", "end:", post)
	cfgNames := []string{"mvp4", "mvp6.1/2", "mvp6.3/2", "mvp7.0/2", "mvp8.0/2"}
	if c.Thorough() {
		cfgNames = []string{"mvp1", "mvp3", "mvp4", "mvp5", "mvp6.0/2", "mvp6.1/2", "mvp6.2/2", "mvp6.3/2", "mvp6.3/3", "mvp7.0/2", "mvp7.1/2", "mvp8.0/2", "mvp8.0/3"}
	}
	type pair struct {
		a, b   string
		shared bool
	}
	pairs := []pair{{p1, p2, false}, {p2, p1, false}, {p1, p1, true}, {p2, p2, true}}
	for _, name := range cfgNames {
		cfg := pxConfigByName(name)
		for pi, pr := range pairs {
			// default schedule (A to completion, then B), then every single preemption of A
			_, _, trace := c08DualCheck(cfg, pr.a, pr.b, in, pr.shared, nil)
			for i := -1; i < len(trace); i++ {
				*item++
				if !c.Mine(*item) {
					continue
				}
				var prefix []int
				if i >= 0 {
					if trace[i].Alts < 2 {
						continue
					}
					prefix = make([]int, i+1)
					prefix[i] = 1
				}
				class, detail, tr := c08DualCheck(cfg, pr.a, pr.b, in, pr.shared, prefix)
				c.Sum.Evaluations++
				c.Sum.States++
				c.Sum.Validated++
				c.Sum.Transitions += int64(len(tr))
				c.Sum.Outcomes["iv:"+class]++
				if i >= 0 {
					c.Sum.Nontrivial++
				}
				if class != "ok" {
					mode := "separate-applications"
					if pr.shared {
						mode = "shared-application"
					}
					c.Fail(cfg.Fam+"/concurrent/"+mode+"/"+class, class, c08Case{Part: "concurrent", Cfg: cfg.Name, Prog: pr.a, Prog2: pr.b, Init: in.ID, Mode: mode, Choices: prefix}, detail)
				}
				if i == 5 && pi == 0 {
					c.Sample(map[string]any{"part": "concurrent", "cfg": cfg.Name, "preempt_machine_A_at_cycle_boundary": i, "cycle_boundaries_of_A": len(trace)})
				}
			}
		}
	}
}

// ---- (v) map orders inside the MSI controllers (protocol rig)

type c08RigCase struct {
	Part    string  `json:"part"`
	Rig     rigCase `json:"rig"`
	Choices []int   `json:"choices,omitempty"`
}

func rigObserved(k rigCase, prefix []int) *rigObservation {
	o := &rigObservation{Prefix: prefix}
	rigObserve = o
	defer func() { rigObserve = nil }()
	rigRun(k)
	return o
}

// c08RigOrders: from every quiescent state of 3 cores x 2 lines, two requests from different cores to
// different lines issued in the same cycle; the completion cycles, the data read and the final state must
// not depend on the order in which the controllers range over their maps (one deviation).
func c08RigOrders(c *RunCtx, item *int) {
	verifrt.FullPermLimit = 3
	defer func() { verifrt.FullPermLimit = 4 }()
	variants := []string{"mvp7.0", "mvp7.1", "mvp8.0"}
	for _, v := range variants {
		setups, _ := rigSetups(v, 3, 0)
		for _, setup := range setups {
			for ca := 0; ca < 3; ca++ {
				for cb := 0; cb < 3; cb++ {
					if ca == cb {
						continue
					}
					for _, oa := range []string{"read", "write"} {
						for _, ob := range []string{"read", "write"} {
							for _, la := range []int32{0, 64} {
								if !c.Thorough() && la != 0 {
									continue // quick: request a on line 0, request b on line 64
								}
								*item++
								if !c.Mine(*item) {
									continue
								}
								k := rigCase{Variant: v, Cores: 3, Setup: setup, Events: []rigEvent{{ca, oa, la, 0}, {cb, ob, 64 - la, 0}}}
								base := rigObserved(k, nil)
								c.Sum.Evaluations++
								dev := false
								for i := base.SetupPoints; i < len(base.Trace); i++ {
									for alt := 1; alt < base.Trace[i].Alts; alt++ {
										p := make([]int, i+1)
										p[i] = alt
										o := rigObserved(k, p)
										c.Sum.Evaluations++
										c.Sum.States++
										c.Sum.Validated++
										c.Sum.Transitions += int64(len(o.Trace))
										dev = true
										if o.Obs != base.Obs {
											c.Sum.Outcomes["v:order-dependent"]++
											c.Fail(v+"/rig-map-order/order-dependent", "order-dependent", c08RigCase{Part: "rig-map-order", Rig: k, Choices: p},
												fmt.Sprintf("map order %d at choice point %d (map with %d keys) changes what the requests observe: %s  vs default  %s", alt, i, base.Trace[i].N, trunc(o.Obs, 300), trunc(base.Obs, 300)))
										} else {
											c.Sum.Outcomes["v:same"]++
										}
									}
								}
								if dev {
									c.Sum.Nontrivial++
								}
								if *item%3001 == 1 {
									c.Sample(map[string]any{"part": "rig-map-order", "rig_schedule": k, "choice_points_after_setup": len(base.Trace) - base.SetupPoints})
								}
							}
						}
					}
				}
			}
		}
	}
}

func c08Replay(prop string, raw json.RawMessage) (string, string) {
	var probe struct {
		Part string `json:"part"`
	}
	json.Unmarshal(raw, &probe)
	if probe.Part == "rig-map-order" {
		var rc c08RigCase
		json.Unmarshal(raw, &rc)
		verifrt.FullPermLimit = 3
		defer func() { verifrt.FullPermLimit = 4 }()
		base := rigObserved(rc.Rig, nil)
		o := rigObserved(rc.Rig, rc.Choices)
		if o.Obs != base.Obs {
			return "order-dependent", trunc(o.Obs, 300) + " vs " + trunc(base.Obs, 300)
		}
		return "ok", ""
	}
	var k c08Case
	if err := json.Unmarshal(raw, &k); err != nil {
		return "ok", err.Error()
	}
	in := pxInitByID(k.Init)
	cfg := pxConfigByName(k.Cfg)
	switch k.Part {
	case "map-order":
		ref := refRun(k.Prog, in)
		base := pxExec(cfg, k.Prog, in, &ref, true, nil, nil)
		if len(k.Choices) == 0 {
			again := pxExec(cfg, k.Prog, in, &ref, true, nil, nil)
			if digest(&base) != digest(&again) {
				return "nondeterministic", describeDiff(&base, &again)
			}
			return "ok", ""
		}
		// FullPermLimit used when the case was recorded is implied by the alternative index
		for _, lim := range []int{3, 4} {
			verifrt.FullPermLimit = lim
			out := pxExec(cfg, k.Prog, in, &ref, true, k.Choices, nil)
			verifrt.FullPermLimit = 4
			if out.Class == "replay-divergence" {
				continue
			}
			if digest(&out) != digest(&base) {
				return "order-dependent", describeDiff(&base, &out)
			}
		}
		return "ok", ""
	case "history":
		fr, err := freshRun(k.Cfg, k.Init, k.Prog)
		if err != nil {
			return "ok", err.Error()
		}
		got, ok := c08HistoryOne(cfg, k.Prog2, k.Prog, in, k.Mode)
		if ok && digest(&got) != fr.Digest {
			return "history-dependent", fmt.Sprintf("fresh process: %s %d cycles; %s: %s %d cycles", fr.Class, fr.Cycles, k.Mode, got.Class, got.Cycles)
		}
		return "ok", ""
	case "iterator":
		for _, h := range c08IterHarnesses(true) {
			if h.name == k.Harness {
				_, class, detail := runIterHarness(h, k.Choices)
				return class, detail
			}
		}
		return "ok", "unknown harness"
	case "concurrent":
		class, detail, _ := c08DualCheck(cfg, k.Prog, k.Prog2, in, k.Mode == "shared-application", k.Choices)
		return class, detail
	}
	return "ok", "unknown part"
}

func init() {
	register("C08", &Check{
		Shards: func(tier string) int { return 64 },
		Run: func(c *RunCtx) {
			item := 0
			c08MapOrders(c, &item)
			c08Iterators(c, &item)
			c08Histories(c, &item)
			c08Dual(c, &item)
			c08RigOrders(c, &item)
			c.Sum.Rule = "(i) PX with deviations: 57 target programs (all sequences of length <= 2 over {sw, sb, lw x2, addi x2 (WAW pair), bne} + epilogue) x 33 configurations, plus same-line programs (all sequences of length 3 (quick: 64) / 3..4 (thorough: 320) over three loads and a store to one line) x the MSI configurations with 2..3 (quick) / 2..4 cores, plus two-line programs (length 4 over stores and loads to lines 0 and 64; quick: the 50 that begin with a store to each line, thorough: all 625) x the MSI configurations with 3 and 4 cores, plus busy-holder programs (two loads of one line and a dependent add, then every sequence of length 2 (quick) / 2..3 (thorough) over {the two loads, a load of another line, the add}) x the MSI configurations with 2 cores: default execution (canonical map orders) vs every execution deviating at <= 1 map-range choice point (thorough: <= 2 for the programs of length <= 1) (all n! orders for maps with <= 3 (quick) / 4 keys, transpositions + rotations + reversal beyond); (ii) comp.Queue.Iterator and ds.StableMapIteration driven by consumers that remove subsets, abandon early and push after abandoning, under a cooperative scheduler with unbounded preemptions, every interleaving; (iii) for every ordered pair (X, Y) of 13 (quick) / 33 short programs (incl. a store and a load beyond the end of memory), and of the 8 programs of the loop-entered-in-the-middle family (exit branch fed by a missing load, next iteration speculated and flushed), and every configuration: Y after X, Y on a machine built while X's is alive, Y twice on one parsed Application, all equal to Y alone in a fresh OS process; (iv) two machines interleaved at cycle boundaries, every schedule with <= 1 preemption, separate and shared parsed programs, each machine compared with its solo run; (v) on the MSI protocol rig: from every quiescent state of 3 cores x 2 lines, two requests from different cores to different lines issued in the same cycle, default map orders vs every single deviation inside the controllers / directory: completion cycles, data read and final state identical; oracle = bit-identical (cycles, registers, memory); non-trivial = (program, configuration) pairs with at least one multi-key map range, harnesses with more than one schedule, Y programs with at least one comparable history, and schedules with a preemption"
			c.Assume("the Go memory model is not explored: scheduling points are channel operations, iterator loop heads and cycle boundaries")
		},
		Replay: c08Replay,
	})
}
