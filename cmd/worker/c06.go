package main

import (
	"encoding/json"
	"fmt"
	"sort"
	"strings"

	mvp70 "github.com/teivah/majorana/proc/mvp7-0"
	mvp71 "github.com/teivah/majorana/proc/mvp7-1"
	mvp80 "github.com/teivah/majorana/proc/mvp8-0"
	"github.com/teivah/majorana/verifrt"
)

// C06 — MSI coherence invariants hold at every cycle on the multi-core variants.
//
// (a) RX: every timed schedule of k read / write requests (and, separately,
//     pipeline-flush events) from 2-3 cores on lines 0 and 64 is issued straight
//     into the real cache controllers + MSI directory (+ L3 for MVP-8), cycled
//     in the order CPU.Run uses (all snoops, then the cores in index order); the
//     invariants are evaluated on a snapshot after every cycle.
// (b) the same invariant function runs at every cycle boundary of whole-pipeline
//     executions of load/store programs on MVP-7.0/7.1/8 with 1..4 cores.

const (
	msiInvalid  = 0
	msiShared   = 1
	msiModified = 2
)

// checkMSI evaluates the statement's invariants on one snapshot.
func checkMSI(s *verifrt.MSISnap) (class, detail string) {
	type key struct {
		core int
		line int32
	}
	state := map[key]int32{}
	lines := map[int32]bool{}
	for _, e := range s.States {
		state[key{e.Core, e.Line}] = e.State
		lines[e.Line] = true
	}
	// semaphore counters
	semBusy := map[int32]bool{}
	for _, sem := range s.Sems {
		if sem.Read < 0 || sem.Write < 0 {
			return "negative-lock-counter", fmt.Sprintf("line %d: read=%d write=%d", sem.Line, sem.Read, sem.Write)
		}
		if sem.Read > 0 || sem.Write > 0 {
			semBusy[sem.Line] = true
		}
	}
	cmdBusy := map[int32]bool{}
	for _, c := range s.Commands {
		cmdBusy[c.Line] = true
		if s.L3LineSize > 0 {
			// a command on the containing L3 line is a transfer in progress for both L1 lines
			base := c.Line - c.Line%s.L3LineSize
			for a := base; a < base+s.L3LineSize; a += s.LineSize {
				cmdBusy[a] = true
			}
		}
	}
	busy := func(l int32) bool { return semBusy[l] || cmdBusy[l] }
	// single writer
	for l := range lines {
		nm, ns := 0, 0
		for c := 0; c < s.Cores; c++ {
			switch state[key{c, l}] {
			case msiModified:
				nm++
			case msiShared:
				ns++
			}
		}
		if nm > 1 {
			return "two-modified", fmt.Sprintf("line %d is Modified in %d cores", l, nm)
		}
		if nm == 1 && ns > 0 {
			return "modified-and-shared", fmt.Sprintf("line %d is Modified in one core and Shared in %d", l, ns)
		}
	}
	// next level lookup
	nextLevel := func(addr int32) (int8, bool) {
		for _, l := range s.L3 {
			if addr >= l.Base && addr < l.Base+s.L3LineSize {
				return l.Data[addr-l.Base], true
			}
		}
		if int(addr) < len(s.Memory) {
			return s.Memory[addr], true
		}
		return 0, false
	}
	for c := 0; c < s.Cores; c++ {
		seen := map[int32]bool{}
		for _, l := range s.L1[c] {
			if l.Base%s.LineSize != 0 {
				return "unaligned-line", fmt.Sprintf("core %d holds a line at %d", c, l.Base)
			}
			if seen[l.Base] {
				return "duplicate-line", fmt.Sprintf("core %d holds line %d twice", c, l.Base)
			}
			seen[l.Base] = true
			if int32(len(l.Data)) != s.LineSize {
				return "wrong-line-size", fmt.Sprintf("core %d line %d has %d bytes", c, l.Base, len(l.Data))
			}
			st := state[key{c, l.Base}]
			if busy(l.Base) {
				continue
			}
			if st == msiInvalid {
				return "resident-but-invalid", fmt.Sprintf("core %d holds line %d in L1 but its state is Invalid (no transfer in progress)", c, l.Base)
			}
			if st == msiShared {
				for i, b := range l.Data {
					if v, ok := nextLevel(l.Base + int32(i)); ok && v != b {
						return "shared-differs-from-next-level", fmt.Sprintf("core %d Shared line %d byte %d is %d, next level holds %d", c, l.Base, i, b, v)
					}
				}
			}
		}
		for k, st := range state {
			if k.core == c && st != msiInvalid && !seen[k.line] && !busy(k.line) {
				return "valid-but-not-resident", fmt.Sprintf("core %d state %d for line %d but the line is not in its L1 (no transfer in progress)", c, st, k.line)
			}
		}
	}
	return "ok", ""
}

// ---- (a) the rig explorer

type msiRig interface {
	Memory() []int8
	Snoop(core int)
	Read(core int, cycle int, addrs []int32) ([]int8, bool)
	Write(core int, cycle int, addrs []int32, data []int8) bool
	Flush(core int)
	Idle(core int) bool
	Snapshot() verifrt.MSISnap
}

func newRig(variant string, cores int) msiRig {
	switch variant {
	case "mvp7.0":
		return mvp70.NewVerifRig(cores, 2048)
	case "mvp7.1":
		return mvp71.NewVerifRig(cores, 2048)
	case "mvp8.0":
		return mvp80.NewVerifRig(cores, 2048)
	}
	panic("unknown variant " + variant)
}

type rigEvent struct {
	Core int    `json:"core"`
	Op   string `json:"op"` // "read", "write", "flush"
	Line int32  `json:"line"`
	At   int    `json:"at"` // earliest issue cycle
}

type rigCase struct {
	Variant   string     `json:"variant"`
	Cores     int        `json:"cores"`
	Prefill   int        `json:"prefill"`              // lines accessed by core 0 before the schedule starts
	PrefillOp string     `json:"prefill_op,omitempty"` // "read" (default) or "write" (dirty lines)
	Setup     []rigEvent `json:"setup,omitempty"`      // requests run one at a time, each to completion, before the schedule
	Events    []rigEvent `json:"events"`
}

const rigHorizon = 6000

// rigRun executes one schedule; returns class/detail, controller cycles used,
// and whether two requests overlapped in time on one line.
// rigObserve, when non-nil, makes rigRun record what C08 compares across map
// orders: the completion cycle and data of every request and the final state.
type rigObservation struct {
	Prefix      []int           // map-order choices to replay
	Trace       []verifrt.Point // choice points met
	SetupPoints int             // how many of them belong to the setup phase
	Obs         string
}

var rigObserve *rigObservation

func rigRun(k rigCase) (class, detail string, cycles int, overlapped bool) {
	var obsLog []string
	if o := rigObserve; o != nil {
		verifrt.Begin(1<<40, 1<<40, 1<<40, true, o.Prefix)
		defer func() {
			o.Trace = append([]verifrt.Point(nil), verifrt.Trace...)
			o.Obs = strings.Join(obsLog, ";") + "|" + class
			verifrt.End()
		}()
	}
	var earlier func() string
	defer func() {
		if p := recover(); p != nil {
			class, detail = "panic", fmt.Sprint(p)
			if earlier != nil {
				if e := earlier(); e != "" {
					class = e + "+panic"
				}
			}
		}
	}()
	r := newRig(k.Variant, k.Cores)
	mem := r.Memory()
	for i := range mem {
		mem[i] = int8(i%97 + 1)
	}
	ref := append([]int8{}, mem...)
	t := 0
	// The invariants are evaluated after every cycle of the schedule proper. The cycles of a
	// setup sequence are checked once, when the sequence itself is run as a case without events
	// (every setup sequence is; see c06RigRun), not again in each of the schedules that start from it.
	checking := len(k.Events) == 0 || len(k.Setup) == 0
	step := func(cur []*rigEvent) (string, string) {
		for c := 0; c < k.Cores; c++ {
			r.Snoop(c)
		}
		for c := 0; c < k.Cores; c++ {
			e := cur[c]
			if e == nil {
				continue
			}
			addrs := []int32{e.Line, e.Line + 1, e.Line + 2, e.Line + 3}
			if e.Op == "read" {
				d, done := r.Read(c, t, addrs)
				if done {
					obsLog = append(obsLog, fmt.Sprintf("c%d read %d done@%d=%v", c, e.Line, t, d))
					for i := range d {
						if d[i] != ref[int(e.Line)+i] {
							return "wrong-read-value", fmt.Sprintf("cycle %d: core %d read line %d = %v, sequentially consistent memory holds %v", t, c, e.Line, d, ref[e.Line:e.Line+4])
						}
					}
					cur[c] = nil
				}
			} else {
				val := int8(100 + c*10 + int(e.At%7))
				if r.Write(c, t, addrs, []int8{val, val, val, val}) {
					obsLog = append(obsLog, fmt.Sprintf("c%d write %d done@%d", c, e.Line, t))
					for i := 0; i < 4; i++ {
						ref[int(e.Line)+i] = val
					}
					cur[c] = nil
				}
			}
		}
		if !checking {
			return "ok", ""
		}
		s := r.Snapshot()
		cl, d := checkMSI(&s)
		if cl != "ok" {
			return cl, fmt.Sprintf("cycle %d: %s", t, d)
		}
		return "ok", ""
	}
	// prefill: core 0 reads / writes `Prefill` distinct lines starting at 128; setup: arbitrary
	// requests; all of them one at a time, each run to completion
	cur := make([]*rigEvent, k.Cores)
	var pre []rigEvent
	pop := k.PrefillOp
	if pop == "" {
		pop = "read"
	}
	for i := 0; i < k.Prefill; i++ {
		pre = append(pre, rigEvent{Core: 0, Op: pop, Line: int32(128 + 64*i)})
	}
	pre = append(pre, k.Setup...)
	for i := range pre {
		e := &pre[i]
		e.At = 3 + i // only used to derive the written value
		cur[e.Core] = e
		start := t
		for {
			if cl, d := step(cur); cl != "ok" {
				return "setup-" + cl, d, t, false
			}
			t++
			idle := cur[e.Core] == nil
			for c2 := 0; c2 < k.Cores; c2++ {
				if !r.Idle(c2) {
					idle = false
				}
			}
			if idle {
				break
			}
			if t-start > 3000 {
				return "setup-no-completion", fmt.Sprintf("setup request %d (%+v) still outstanding after 3000 cycles", i, *e), t, false
			}
		}
	}
	checking = true
	if o := rigObserve; o != nil {
		o.SetupPoints = len(verifrt.Trace)
		obsLog = nil
	}
	t0 := t
	next := 0
	inflightLine := make([]int32, k.Cores)
	for i := range inflightLine {
		inflightLine[i] = -1
	}
	// invariant violations do not stop the schedule: every distinct kind seen is part of the verdict
	// (so that a new kind of violation is not masked by a listed one on the same schedule)
	seenViol := map[string]bool{}
	firstDetail := ""
	earlier = func() string {
		var ks []string
		for k := range seenViol {
			ks = append(ks, k)
		}
		sort.Strings(ks)
		return strings.Join(ks, "+")
	}
	verdict := func(cl, d string) (string, string) {
		if len(seenViol) == 0 {
			return cl, d
		}
		if cl != "ok" {
			seenViol[cl] = true
		}
		var ks []string
		for k := range seenViol {
			ks = append(ks, k)
		}
		sort.Strings(ks)
		return strings.Join(ks, "+"), firstDetail
	}
	for ; t < t0+rigHorizon; t++ {
		for next < len(k.Events) {
			e := &k.Events[next]
			if e.At+t0 > t {
				break
			}
			if e.Op == "flush" {
				// pipeline flush discipline: flush this core's controller; its request is dropped
				r.Flush(e.Core)
				cur[e.Core] = nil
				next++
				continue
			}
			if cur[e.Core] != nil {
				break // a core issues only when idle
			}
			cur[e.Core] = e
			next++
		}
		for c := 0; c < k.Cores; c++ {
			if cur[c] != nil {
				for d := 0; d < k.Cores; d++ {
					if d != c && cur[d] != nil && cur[d].Line == cur[c].Line {
						overlapped = true
					}
				}
			}
		}
		if cl, d := step(cur); cl != "ok" {
			if cl == "wrong-read-value" || strings.HasPrefix(cl, "negative") {
				c2, d2 := verdict(cl, d)
				if firstDetail == "" {
					d2 = d
				}
				return c2, d2, t - t0, overlapped
			}
			if !seenViol[cl] {
				seenViol[cl] = true
				if firstDetail == "" {
					firstDetail = d
				}
			}
		}
		done := next == len(k.Events)
		for c := 0; c < k.Cores; c++ {
			if cur[c] != nil || !r.Idle(c) {
				done = false
			}
		}
		if done {
			if rigObserve != nil {
				sn := r.Snapshot()
				obsLog = append(obsLog, fmt.Sprintf("end@%d states=%v mem=%v", t-t0, sn.States, r.Memory()[:192]))
			}
			cl, d := verdict("ok", "")
			return cl, d, t - t0, overlapped
		}
	}
	cl, d := verdict("no-completion", fmt.Sprintf("requests still outstanding after %d cycles", rigHorizon))
	return cl, d, rigHorizon, overlapped
}

func rigOffsets(tier string, k int) []int {
	if k == 2 {
		max := 340
		if tier == "thorough" {
			max = 700
		}
		out := make([]int, 0, max+1)
		for i := 0; i <= max; i++ {
			out = append(out, i)
		}
		return out
	}
	// grid for k = 3: everything within +-4 cycles of each phase boundary of a lone transfer, plus a coarse stride
	set := map[int]bool{}
	for _, b := range []int{0, 3, 309, 312, 315, 618, 621} {
		for d := -4; d <= 4; d++ {
			if b+d >= 0 {
				set[b+d] = true
			}
		}
	}
	stride := 100
	if tier == "thorough" {
		stride = 40
	}
	for i := 0; i <= 640; i += stride {
		set[i] = true
	}
	var out []int
	for i := 0; i <= 700; i++ {
		if set[i] {
			out = append(out, i)
		}
	}
	return out
}

// rigSetups explores the quiescent states of the controllers breadth-first: a
// state is reached by a sequence of completed requests; one (shortest) sequence
// is kept per distinct resulting state (directory states + L1 contents per core
// in MRU order). maxOps = 0 means to the fix-point.
func rigSetups(variant string, cores, maxOps int) (setups [][]rigEvent, fixpoint bool) {
	type op struct {
		core int
		op   string
		line int32
	}
	var ops []op
	for cc := 0; cc < cores; cc++ {
		for _, o := range []string{"read", "write"} {
			for _, l := range []int32{0, 64} {
				ops = append(ops, op{cc, o, l})
			}
		}
	}
	sig0, _ := rigStateAfter(rigCase{Variant: variant, Cores: cores})
	seen := map[string]bool{sig0: true}
	setups = append(setups, nil)
	frontier := [][]rigEvent{nil}
	for depth := 0; len(frontier) > 0; depth++ {
		if maxOps > 0 && depth >= maxOps {
			return setups, false
		}
		var next [][]rigEvent
		for _, base := range frontier {
			for _, o := range ops {
				setup := append(append([]rigEvent{}, base...), rigEvent{Core: o.core, Op: o.op, Line: o.line})
				sig, ok := rigStateAfter(rigCase{Variant: variant, Cores: cores, Setup: setup})
				if !ok || seen[sig] {
					continue
				}
				seen[sig] = true
				setups = append(setups, setup)
				next = append(next, setup)
			}
		}
		frontier = next
	}
	return setups, true
}

// rigStateAfter runs only the setup of k and returns a signature of the state reached.
func rigStateAfter(k rigCase) (sig string, ok bool) {
	defer func() {
		if recover() != nil {
			ok = false
		}
	}()
	r := newRig(k.Variant, k.Cores)
	t := 0
	for i := range k.Setup {
		e := k.Setup[i]
		addrs := []int32{e.Line, e.Line + 1, e.Line + 2, e.Line + 3}
		done := false
		for n := 0; n < 3000; n++ {
			for c := 0; c < k.Cores; c++ {
				r.Snoop(c)
			}
			if !done {
				if e.Op == "read" {
					_, done = r.Read(e.Core, t, addrs)
				} else {
					done = r.Write(e.Core, t, addrs, []int8{1, 1, 1, 1})
				}
			}
			t++
			idle := done
			for c := 0; c < k.Cores; c++ {
				if !r.Idle(c) {
					idle = false
				}
			}
			if idle {
				break
			}
		}
		if !done {
			return "", false
		}
	}
	s := r.Snapshot()
	var b strings.Builder
	for _, st := range s.States {
		if st.State != msiInvalid {
			fmt.Fprintf(&b, "%d:%d=%d,", st.Core, st.Line, st.State)
		}
	}
	for c, ls := range s.L1 {
		fmt.Fprintf(&b, "|c%d:", c)
		for _, l := range ls {
			fmt.Fprintf(&b, "%d,", l.Base)
		}
	}
	for _, l := range s.L3 {
		fmt.Fprintf(&b, "L3:%d,", l.Base)
	}
	return b.String(), true
}

func c06RigRun(c *RunCtx) {
	type op struct {
		core int
		op   string
		line int32
	}
	variants := []string{"mvp7.0", "mvp7.1", "mvp8.0"}
	item := 0
	run := func(k rigCase) {
		class, detail, cycles, ov := rigRun(k)
		c.Sum.Evaluations++
		c.Sum.States++
		c.Sum.Validated++
		c.Sum.Transitions += int64(cycles)
		c.Sum.Outcomes["rig:"+class]++
		if ov {
			c.Sum.Nontrivial++
		}
		if class != "ok" {
			hasFlush := "rw"
			for _, e := range k.Events {
				if e.Op == "flush" {
					hasFlush = "flush"
				}
			}
			c.Fail(fmt.Sprintf("%s/rig-%s/%s", k.Variant, hasFlush, class), class, k, detail)
		}
		if c.Sum.Evaluations%50021 == 1 {
			c.Sample(map[string]any{"rig_schedule": k})
		}
	}
	mkOps := func(cores int, lines []int32) []op {
		var ops []op
		for cc := 0; cc < cores; cc++ {
			for _, o := range []string{"read", "write"} {
				for _, l := range lines {
					ops = append(ops, op{cc, o, l})
				}
			}
		}
		return ops
	}
	for _, v := range variants {
		for _, cores := range []int{2, 3} {
			ops := mkOps(cores, []int32{0, 64})
			// ---- k = 2, every offset
			if cores == 2 || c.Thorough() {
				for _, a := range ops {
					for _, b := range ops {
						item++
						if !c.Mine(item) {
							continue
						}
						for _, off := range rigOffsets(c.Tier, 2) {
							run(rigCase{Variant: v, Cores: cores, Events: []rigEvent{{a.core, a.op, a.line, 0}, {b.core, b.op, b.line, off}}})
						}
					}
				}
			}
			grid := rigOffsets(c.Tier, 3)
			// ---- k = 3 on the grid (thorough only; the quick tier reaches three and more
			// requests through the prepared states below)
			if cores == 2 && c.Thorough() {
				for _, a := range ops {
					for _, b := range ops {
						for _, d := range ops {
							item++
							if !c.Mine(item) {
								continue
							}
							for _, o1 := range grid {
								for _, o2 := range grid {
									run(rigCase{Variant: v, Cores: cores, Events: []rigEvent{{a.core, a.op, a.line, 0}, {b.core, b.op, b.line, o1}, {d.core, d.op, d.line, o1 + o2}}})
								}
							}
						}
					}
				}
			}
			// ---- prepared states: every distinct state reachable by <= 3 completed requests
			// (3 cores; 2 cores in thorough too), then two overlapping requests from different cores
			if cores == 3 || c.Thorough() {
				offs := []int{0, 1, 3, 100, 305}
				if c.Thorough() {
					offs = grid
				}
				setups, fix := rigSetups(v, cores, 0)
				c.AddExtra("rig_prepared_states_"+v+fmt.Sprintf("_%dcores", cores), float64(len(setups))/float64(c.Of))
				if !fix {
					c.Cap("rig: quiescent-state search did not reach a fix-point")
				}
				for _, setup := range setups {
					item++
					if c.Mine(item) {
						// the setup sequence on its own, invariants checked at every cycle
						run(rigCase{Variant: v, Cores: cores, Setup: setup})
					}
					for _, a := range ops {
						for _, b := range ops {
							if a.core == b.core {
								continue
							}
							item++
							if !c.Mine(item) {
								continue
							}
							for _, off := range offs {
								run(rigCase{Variant: v, Cores: cores, Setup: setup, Events: []rigEvent{{a.core, a.op, a.line, 0}, {b.core, b.op, b.line, off}}})
							}
						}
					}
				}
			}
			// ---- capacity eviction: pre-filled L1 (16 clean or dirty lines), then a request of core 0 that
			// displaces the LRU line (128) and a request of the other core for that very line or another one
			if cores == 2 {
				pops := mkOps(cores, []int32{0, 128})
				for _, pop := range []string{"read", "write"} {
					for _, a := range pops {
						for _, b := range pops {
							item++
							if !c.Mine(item) {
								continue
							}
							for gi, off := range grid {
								if !c.Thorough() && gi%3 != 0 {
									continue
								}
								run(rigCase{Variant: v, Cores: cores, Prefill: 16, PrefillOp: pop, Events: []rigEvent{{a.core, a.op, a.line, 0}, {b.core, b.op, b.line, off}}})
							}
						}
					}
				}
			}
			// ---- pipeline flush tier: request, flush of that core mid-flight, then a second request
			if cores == 2 {
				for _, a := range ops {
					for _, b := range ops {
						item++
						if !c.Mine(item) {
							continue
						}
						for _, f := range grid {
							if f == 0 {
								continue
							}
							for _, o2 := range []int{0, 1, 3, 10, 309, 320, 640} {
								run(rigCase{Variant: v, Cores: cores, Events: []rigEvent{{a.core, a.op, a.line, 0}, {a.core, "flush", a.line, f}, {b.core, b.op, b.line, f + o2}}})
							}
						}
					}
				}
			}
		}
	}
}

// ---- (b) the per-cycle monitor inside whole-pipeline executions

var c06MonitorAlpha = []string{
	"sw t0, 0(zero)", "sw t1, 4(zero)", "sb t1, 1(zero)", "sw t2, 64(zero)",
	"lw t0, 0(zero)", "lb t1, 1(zero)", "lw t2, 4(zero)", "lw t1, 64(zero)",
	"addi t0, t0, 1", "bne t0, t1, end",
}

type c06MonCase struct {
	Cfg  string `json:"cfg"`
	Prog string `json:"prog"`
	Init string `json:"init"`
}

func c06Monitor(cfg *pxConfig, text string, in *pxInit) (class, detail string, cycles int64, ok bool) {
	ref := refRun(text, in)
	if !ref.WellFormed || ref.Err != "" {
		return "ok", "", 0, false
	}
	kinds := map[string]bool{}
	firstDetail := ""
	out := pxExec(cfg, text, in, &ref, false, nil, func(vm vmIface) {
		sn, isMSI := vm.(verifrt.MSISnapshotter)
		if !isMSI {
			return
		}
		s := sn.VerifSnapshot()
		if cl, d := checkMSI(&s); cl != "ok" && !kinds[cl] {
			kinds[cl] = true
			if firstDetail == "" {
				firstDetail = fmt.Sprintf("cycle boundary %d: %s", verifrt.Cycles, d)
			}
		}
	})
	if len(kinds) == 0 {
		return "ok", "", out.VCycle, true
	}
	var ks []string
	for k := range kinds {
		ks = append(ks, k)
	}
	sort.Strings(ks)
	return strings.Join(ks, "+"), firstDetail, out.VCycle, true
}

func c06MonitorRun(c *RunCtx) {
	n := 3
	if c.Thorough() {
		n = 4
	}
	cfgs := cfgsWhere(func(cf *pxConfig) bool { return famOrder[cf.Fam] >= 10 })
	in := pxInitByID("pos")
	item := 0
	var sweeps []string
	for _, sw := range []string{sweep("W", 17, 64, 0, 1), sweep("R", 17, 64, 0, 1), sweep("W", 33, 128, 0, 1), sweep("W", 17, 64, 0, 1) + "\n" + sweep("R", 17, 64, 0, 2)} {
		for _, after := range []string{"", "lw t0, 0(zero)", "sw t1, 0(zero)", "sw t0, 2112(zero)"} {
			sweeps = append(sweeps, lines(sw, after))
		}
	}
	emit := func(text string) {
		item++
		if !c.Mine(item) {
			return
		}
		interesting := false
		for _, cfg := range cfgs {
			class, detail, cycles, ok := c06Monitor(cfg, text, in)
			if !ok {
				return
			}
			c.Sum.Evaluations++
			c.Sum.States++
			c.Sum.Validated++
			c.Sum.Transitions += cycles
			c.Sum.Outcomes["monitor:"+class]++
			interesting = true
			if class != "ok" {
				c.Fail(cfg.Fam+"/monitor/"+class, class, c06MonCase{cfg.Name, text, in.ID}, detail)
			}
		}
		if interesting {
			c.AddExtra("monitored_programs", 1)
		}
		if item%997 == 1 {
			c.Sample(map[string]any{"monitored_program": strings.Split(strings.TrimSpace(text), "\n"), "configs": len(cfgs)})
		}
	}
	for k := 1; k <= n; k++ {
		seqs(len(c06MonitorAlpha), k, func(idx []int) {
			var b []string
			for _, i := range idx {
				b = append(b, c06MonitorAlpha[i])
			}
			emit(lines(strings.Join(b, "\n"), "end:", post))
		})
	}
	for _, s := range sweeps {
		emit(s)
	}
}

func init() {
	register("C06", &Check{
		Shards: func(tier string) int { return 64 },
		Run: func(c *RunCtx) {
			c06RigRun(c)
			c06MonitorRun(c)
			c.Sum.Rule = "RX: for MVP-7.0, 7.1 and 8: every schedule of 2 read/write requests from 2 (quick) / 2-3 (thorough) cores on lines 0 and 64 at EVERY issue offset 0..340 (quick) / 0..700 (thorough); 3 requests from 2 cores on a grid of offsets (thorough; all offsets within +-4 cycles of each phase boundary 0, 3, 309, 312, 315, 618, 621 of a lone transfer plus a coarse stride); two overlapping requests from different cores started from EVERY quiescent state of 3 cores x 2 lines (breadth-first search over completed requests to a fix-point, one shortest request sequence per distinct directory + L1 state; thorough: also 2 cores, grid offsets); 2 requests after a pre-filled L1 (16 clean or 16 dirty lines: capacity eviction of a clean / dirty victim, the other core touching the victim during its write-back); and request / mid-flight controller flush / request schedules; controllers cycled as CPU.Run does (all snoops, then cores in index order), invariants evaluated on a snapshot after every controller cycle, reads compared with a sequentially consistent reference memory. PX monitor: the same invariant function at every cycle boundary of whole-pipeline runs of every load/store/branch program of length <= 3 (quick) / <= 4 (thorough) over a 10-template alphabet and of sweep programs (17 / 33 lines) on MVP-7.0/7.1/8 x 1..4 cores. states = schedules + monitored executions, transitions = controller cycles + cycle boundaries checked; non-trivial = rig schedules in which two requests were outstanding on the same line at the same time"
			c.Assume("a transfer in progress = the line's semaphore is held or a directory command for the line (or its containing L3 line) is outstanding; residency/state/next-level equalities are only required outside transfers, as the statement says")
			c.Assume("rig flush events follow the pipeline's discipline: the flushed core's request is dropped and the core may issue again")
		},
		Replay: func(prop string, raw json.RawMessage) (string, string) {
			var probe map[string]json.RawMessage
			json.Unmarshal(raw, &probe)
			if _, isRig := probe["variant"]; isRig {
				var k rigCase
				json.Unmarshal(raw, &k)
				class, detail, _, _ := rigRun(k)
				return class, detail
			}
			var k c06MonCase
			json.Unmarshal(raw, &k)
			cfg, in := pxConfigByName(k.Cfg), pxInitByID(k.Init)
			if cfg == nil || in == nil {
				return "ok", "unknown case"
			}
			class, detail, _, _ := c06Monitor(cfg, k.Prog, in)
			return class, detail
		},
	})
}
