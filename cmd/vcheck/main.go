// vcheck is the single driver of the verification machinery.
//
//	vcheck <Cxx> [--tier quick|thorough]   run the check of one property
//	vcheck replay <file>                   re-execute one recorded violation
//	vcheck curate <Cxx> [--tier ..]        (author only) rewrite findings/<Cxx>.cases from a full run
//	vcheck build                           instrument + build the worker (warms the build cache)
//	vcheck instr <outdir>                  only run the instrumenter
//
// Every run re-instruments /repo's current working tree and rebuilds the
// worker from it (go build -tags verif -overlay ...).
package main

import (
	"bufio"
	"bytes"
	"compress/gzip"
	"encoding/json"
	"flag"
	"fmt"
	"io"
	"os"
	"os/exec"
	"path/filepath"
	"runtime"
	"sort"
	"strconv"
	"strings"
	"sync"
	"time"

	"verif/internal/instr"
	"verif/internal/proto"
)

var (
	verifDir = envOr("VERIF_DIR", "/verif")
	repoDir  = envOr("VERIF_REPO", "/repo")
)

// outDir is where evidence and replays go: /verif normally, a scratch directory
// for screening runs against an alternative tree.
func outDir() string {
	if alt := os.Getenv("VERIF_ALT_TREE"); alt != "" {
		d := filepath.Join(os.TempDir(), "verif-screen", filepath.Base(alt))
		os.MkdirAll(d, 0o755)
		return d
	}
	if os.Getenv("VERIF_OUT_SCRATCH") != "" { // author's mutation runs: do not overwrite the committed evidence
		d := filepath.Join(os.TempDir(), "verif-screen", "repo")
		os.MkdirAll(d, 0o755)
		return d
	}
	return verifDir
}

func envOr(k, d string) string {
	if v := os.Getenv(k); v != "" {
		return v
	}
	return d
}

func goEnv() []string {
	env := os.Environ()
	env = append(env, "GOFLAGS=-mod=mod", "GOPROXY=off", "GOSUMDB=off", "GOTOOLCHAIN=local", "CGO_ENABLED=0")
	return env
}

type built struct {
	dir    string
	worker string
	stats  instr.Stats
}

func buildWorker(race bool) (*built, error) {
	dir := filepath.Join(verifDir, ".build", strconv.Itoa(os.Getpid()))
	os.RemoveAll(dir)
	// VERIF_ALT_TREE (screening aid): instrument another checkout of the repository,
	// keyed as /repo in the overlay; registered commands never set it.
	src := repoDir
	if alt := os.Getenv("VERIF_ALT_TREE"); alt != "" {
		src = alt
	}
	ov, st, err := instr.RunKeyed(src, repoDir, filepath.Join(dir, "gen"), filepath.Join(verifDir, "rt", "verifrt", "rt.go"), filepath.Join(verifDir, "overlay"))
	if err != nil {
		return nil, fmt.Errorf("instrument: %v", err)
	}
	bin := filepath.Join(dir, "worker")
	args := []string{"build", "-tags", "verif", "-overlay", ov, "-o", bin}
	env := goEnv()
	if race {
		args = append(args, "-race")
		env = append(env, "CGO_ENABLED=1")
	}
	args = append(args, "./cmd/worker")
	cmd := exec.Command("go", args...)
	cmd.Dir = verifDir
	cmd.Env = env
	out, err := cmd.CombinedOutput()
	if err != nil {
		return nil, fmt.Errorf("go build: %v\n%s", err, out)
	}
	return &built{dir: dir, worker: bin, stats: st}, nil
}

func (b *built) cleanup() {
	if b != nil && os.Getenv("VERIF_KEEP_BUILD") == "" {
		os.RemoveAll(b.dir)
	}
}

func buildError(err error) {
	fmt.Printf("BUILD-ERROR: %v\n", err)
	os.Exit(2)
}

func main() {
	if len(os.Args) < 2 {
		fmt.Println("usage: vcheck <Cxx>|replay|curate|build|instr ...")
		os.Exit(2)
	}
	switch os.Args[1] {
	case "build":
		b, err := buildWorker(false)
		if err != nil {
			buildError(err)
		}
		fmt.Printf("instrumented %d files: %d loops (%d cycle boundaries), %d map ranges, %d go statements, %d sends, %d added files\n",
			b.stats.Files, b.stats.ForLoops, b.stats.CycleLoops, b.stats.MapRanges, b.stats.GoStmts, b.stats.Sends, b.stats.Added)
		b.cleanup()
	case "instr":
		ov, st, err := instr.Run(repoDir, os.Args[2], filepath.Join(verifDir, "rt", "verifrt", "rt.go"), filepath.Join(verifDir, "overlay"))
		if err != nil {
			buildError(err)
		}
		fmt.Println(ov, st.Files, st.MapRangeSites)
	case "px":
		b, err := buildWorker(false)
		if err != nil {
			buildError(err)
		}
		cmd := exec.Command(b.worker, os.Args[1:]...)
		cmd.Stdout, cmd.Stderr = os.Stdout, os.Stderr
		cmd.Run()
		b.cleanup()
	case "replay":
		os.Exit(replay(os.Args[2]))
	case "curate":
		fs := flag.NewFlagSet("curate", flag.ExitOnError)
		tier := fs.String("tier", "quick", "")
		fs.Parse(os.Args[3:])
		os.Exit(runCheck(os.Args[2], *tier, true))
	default:
		fs := flag.NewFlagSet("check", flag.ExitOnError)
		tier := fs.String("tier", envOr("VERIF_TIER", "quick"), "")
		fs.Parse(os.Args[2:])
		os.Exit(runCheck(os.Args[1], *tier, false))
	}
}

// ------------------------------------------------------------ known findings

type finding struct {
	ID        string   `json:"id"`
	Property  string   `json:"property"`
	Status    string   `json:"status"`
	Groups    []string `json:"groups"`
	What      string   `json:"what"`
	RootCause string   `json:"root_cause"`
	Example   any      `json:"example,omitempty"`
}

type findingsFile struct {
	Findings []finding `json:"findings"`
	Fixed    []string  `json:"fixed"`
}

func loadFindings() findingsFile {
	var ff findingsFile
	b, err := os.ReadFile(filepath.Join(verifDir, "known_findings.json"))
	if err == nil {
		if err := json.Unmarshal(b, &ff); err != nil {
			fmt.Printf("BUILD-ERROR: known_findings.json: %v\n", err)
			os.Exit(2)
		}
	}
	return ff
}

// loadCases returns id -> group for one property. The list is stored as
// findings/<prop>.cases ("id group" per line), gzip-compressed when large.
func loadCases(prop string) map[string]string {
	m := map[string]string{}
	read := func(r io.Reader) {
		sc := bufio.NewScanner(r)
		sc.Buffer(make([]byte, 1<<20), 1<<20)
		for sc.Scan() {
			fs := strings.Fields(sc.Text())
			if len(fs) >= 2 {
				m[fs[0]] = fs[1]
			} else if len(fs) == 1 {
				m[fs[0]] = ""
			}
		}
	}
	if f, err := os.Open(filepath.Join(verifDir, "findings", prop+".cases")); err == nil {
		read(f)
		f.Close()
	}
	if f, err := os.Open(filepath.Join(verifDir, "findings", prop+".cases.gz")); err == nil {
		if zr, err := gzip.NewReader(f); err == nil {
			read(zr)
			zr.Close()
		}
		f.Close()
	}
	return m
}

func saveCases(prop string, lines []string) error {
	plain := filepath.Join(verifDir, "findings", prop+".cases")
	gz := plain + ".gz"
	os.Remove(plain)
	os.Remove(gz)
	if len(lines) == 0 {
		return nil
	}
	data := []byte(strings.Join(lines, "\n") + "\n")
	if len(lines) <= 20000 {
		return os.WriteFile(plain, data, 0o644)
	}
	f, err := os.Create(gz)
	if err != nil {
		return err
	}
	zw, _ := gzip.NewWriterLevel(f, gzip.BestCompression)
	zw.ModTime = time.Unix(0, 0)
	if _, err := zw.Write(data); err != nil {
		return err
	}
	if err := zw.Close(); err != nil {
		return err
	}
	return f.Close()
}

// ------------------------------------------------------------------ running

type shardResult struct {
	fails []proto.Fail
	sum   *proto.Summary
	err   error
}

func runShard(bin string, args []string) shardResult {
	var res shardResult
	cmd := exec.Command(bin, args...)
	cmd.Env = append(os.Environ(), "GOMAXPROCS=2", "GOGC=200")
	var stderr bytes.Buffer
	cmd.Stderr = &stderr
	out, err := cmd.StdoutPipe()
	if err != nil {
		res.err = err
		return res
	}
	if err := cmd.Start(); err != nil {
		res.err = err
		return res
	}
	sc := bufio.NewScanner(out)
	sc.Buffer(make([]byte, 1<<24), 1<<24)
	for sc.Scan() {
		line := sc.Bytes()
		if len(line) == 0 || line[0] != '{' {
			continue
		}
		var head struct {
			K string `json:"k"`
		}
		if json.Unmarshal(line, &head) != nil {
			continue
		}
		switch head.K {
		case "fail":
			var f proto.Fail
			if err := json.Unmarshal(line, &f); err == nil {
				res.fails = append(res.fails, f)
			}
		case "sum":
			var s proto.Summary
			if err := json.Unmarshal(line, &s); err == nil {
				res.sum = &s
			}
		}
	}
	werr := cmd.Wait()
	if res.sum == nil {
		tail := stderr.String()
		if len(tail) > 4000 {
			tail = tail[len(tail)-4000:]
		}
		res.err = fmt.Errorf("worker %v ended without a summary (%v): %s", args, werr, tail)
	}
	return res
}

func tierOK(t string) bool { return t == "quick" || t == "thorough" }

func runCheck(prop, tier string, curate bool) int {
	if !tierOK(tier) {
		fmt.Println("unknown tier", tier)
		return 2
	}
	start := time.Now()
	seed, _ := strconv.Atoi(os.Getenv("VERIF_SEED"))
	b, err := buildWorker(false)
	if err != nil {
		buildError(err)
	}
	defer b.cleanup()
	buildS := time.Since(start).Seconds()

	n := runtime.NumCPU()
	if v, err := strconv.Atoi(os.Getenv("VERIF_WORKERS")); err == nil && v > 0 {
		n = v
	}
	// ask the worker how many shards this check wants (1 for tiny checks)
	if out, err := exec.Command(b.worker, "shards", prop, "-tier", tier).Output(); err == nil {
		if v, err := strconv.Atoi(strings.TrimSpace(string(out))); err == nil && v > 0 && v < n {
			n = v
		}
	} else {
		fmt.Printf("BUILD-ERROR: worker does not know check %s: %v\n", prop, err)
		return 2
	}
	results := make([]shardResult, n)
	var wg sync.WaitGroup
	for i := 0; i < n; i++ {
		wg.Add(1)
		go func(i int) {
			defer wg.Done()
			results[i] = runShard(b.worker, []string{"run", prop, "-tier", tier, "-shard", strconv.Itoa(i), "-of", strconv.Itoa(n), "-seed", strconv.Itoa(seed)})
		}(i)
	}
	wg.Wait()

	total := proto.Summary{Outcomes: map[string]int64{}, Exhaustive: true, Extra: map[string]any{}}
	var fails []proto.Fail
	capSet := map[string]bool{}
	asmSet := map[string]bool{}
	for i, r := range results {
		if r.err != nil {
			fmt.Printf("INTERNAL-ERROR: shard %d: %v\n", i, r.err)
			return 2
		}
		s := r.sum
		total.Evaluations += s.Evaluations
		total.Nontrivial += s.Nontrivial
		total.States += s.States
		total.Transitions += s.Transitions
		total.Validated += s.Validated
		for k, v := range s.Outcomes {
			total.Outcomes[k] += v
		}
		if len(total.Samples) < 6 {
			for _, smp := range s.Samples {
				if len(total.Samples) < 6 {
					total.Samples = append(total.Samples, smp)
				}
			}
		}
		for _, c := range s.Caps {
			capSet[c] = true
		}
		for _, a := range s.Assumptions {
			asmSet[a] = true
		}
		if !s.Exhaustive {
			total.Exhaustive = false
		}
		if s.Rule != "" {
			total.Rule = s.Rule
		}
		for k, v := range s.Extra {
			switch x := v.(type) {
			case float64:
				if strings.HasPrefix(k, "max_") {
					if old, ok := total.Extra[k].(float64); !ok || x > old {
						total.Extra[k] = x
					}
				} else if old, ok := total.Extra[k].(float64); ok {
					total.Extra[k] = old + x
				} else {
					total.Extra[k] = x
				}
			case map[string]any:
				old, ok := total.Extra[k].(map[string]any)
				if !ok {
					old = map[string]any{}
					total.Extra[k] = old
				}
				for kk, vv := range x {
					old[kk] = vv
				}
			default:
				total.Extra[k] = v
			}
		}
		fails = append(fails, r.fails...)
	}
	for c := range capSet {
		total.Caps = append(total.Caps, c)
	}
	sort.Strings(total.Caps)
	for a := range asmSet {
		total.Assumptions = append(total.Assumptions, a)
	}
	sort.Strings(total.Assumptions)
	sort.Slice(fails, func(i, j int) bool { return fails[i].ID < fails[j].ID })

	if curate {
		return doCurate(prop, tier, fails)
	}

	// --- classify failures
	known := loadCases(prop)
	ff := loadFindings()
	findingFor := func(group string) *finding {
		for i := range ff.Findings {
			f := &ff.Findings[i]
			if f.Property != prop || f.Status != "open" {
				continue
			}
			for _, g := range f.Groups {
				if globMatch(g, group) {
					return f
				}
			}
		}
		return nil
	}
	type kfAgg struct {
		n       int
		example string
	}
	kf := map[string]*kfAgg{}
	var kfOrder []string
	var novel []proto.Fail
	for _, f := range fails {
		if g, ok := known[f.ID]; ok {
			id := "unassigned:" + g
			what := g
			if fd := findingFor(g); fd != nil {
				id = fd.ID
				what = fd.What
			}
			key := id + "\x00" + what
			a := kf[key]
			if a == nil {
				a = &kfAgg{example: string(f.Case)}
				kf[key] = a
				kfOrder = append(kfOrder, key)
			}
			a.n++
			continue
		}
		novel = append(novel, f)
	}
	sort.Strings(kfOrder)
	var kfLines []string
	for _, key := range kfOrder {
		parts := strings.SplitN(key, "\x00", 2)
		a := kf[key]
		ex := a.example
		if len(ex) > 300 {
			ex = ex[:300] + "..."
		}
		line := fmt.Sprintf("KNOWN-FINDING: property=%s %s %s (%d listed cases reproduced, e.g. %s)", prop, parts[0], parts[1], a.n, ex)
		fmt.Println(line)
		kfLines = append(kfLines, fmt.Sprintf("%s: %d cases", parts[0], a.n))
	}

	// --- confirm novel failures by replaying them 5x, then report
	violations := 0
	maxReport := 25
	os.MkdirAll(filepath.Join(outDir(), "replays"), 0o755)
	var flaky []string
	for i, f := range novel {
		if i >= maxReport {
			break
		}
		rp := proto.Replay{Property: prop, ID: f.ID, Group: f.Group, Class: f.Class, Case: f.Case, Detail: f.Detail}
		path := filepath.Join(outDir(), "replays", fmt.Sprintf("%s-%s.json", prop, f.ID))
		ok := 0
		for k := 0; k < 5; k++ {
			rr, err := execReplay(b.worker, rp)
			if err == nil && rr.Reproduced && rr.ID == f.ID {
				ok++
			}
		}
		if ok != 5 {
			rp.Note = fmt.Sprintf("NOT DETERMINISTIC: reproduced %d/5 times", ok)
			flaky = append(flaky, f.ID)
		}
		rp.GoTest = goTestFor(rp)
		jb, _ := json.MarshalIndent(rp, "", " ")
		os.WriteFile(path, jb, 0o644)
		if ok == 5 {
			fmt.Printf("VIOLATION property=%s replay=%s\n", prop, path)
			fmt.Printf("  class=%s group=%s %s\n  case=%s\n", f.Class, f.Group, f.Detail, trunc(string(f.Case), 600))
			violations++
		} else if prop == "C08" {
			// an execution that does not replay identically is itself a determinism violation
			fmt.Printf("VIOLATION property=C08 replay=%s\n  (non-deterministic replay %d/5) %s\n", path, ok, f.Detail)
			violations++
		} else {
			fmt.Printf("UNSTABLE (not reported as violation of %s; reproduced %d/5): %s\n", prop, ok, path)
		}
	}
	if len(novel) > maxReport {
		fmt.Printf("... %d further unlisted failing cases not replayed (total unlisted %d)\n", len(novel)-maxReport, len(novel))
		violations += len(novel) - maxReport
	}

	wall := time.Since(start).Seconds()
	writeEvidence(prop, tier, seed, &total, violations, len(novel), kfLines, flaky, wall, buildS, n, b.stats)
	fmt.Printf("%s %s: evaluations=%d nontrivial=%d states=%d transitions=%d outcomes=%v exhaustive=%v known=%d unlisted=%d wall=%.1fs (build %.1fs, %d shards)\n",
		prop, tier, total.Evaluations, total.Nontrivial, total.States, total.Transitions, total.Outcomes, total.Exhaustive, len(fails)-len(novel), len(novel), wall, buildS, n)
	if violations > 0 {
		return 1
	}
	return 0
}

// globMatch matches s against a pattern in which '*' stands for any substring.
func globMatch(pattern, s string) bool {
	parts := strings.Split(pattern, "*")
	if len(parts) == 1 {
		return pattern == s
	}
	if !strings.HasPrefix(s, parts[0]) {
		return false
	}
	s = s[len(parts[0]):]
	for i := 1; i < len(parts)-1; i++ {
		j := strings.Index(s, parts[i])
		if j < 0 {
			return false
		}
		s = s[j+len(parts[i]):]
	}
	return strings.HasSuffix(s, parts[len(parts)-1])
}

func trunc(s string, n int) string {
	if len(s) > n {
		return s[:n] + "..."
	}
	return s
}

func execReplay(worker string, rp proto.Replay) (proto.ReplayResult, error) {
	var rr proto.ReplayResult
	in, _ := json.Marshal(rp)
	cmd := exec.Command(worker, "replay")
	cmd.Stdin = bytes.NewReader(in)
	cmd.Env = append(os.Environ(), "GOMAXPROCS=2")
	out, err := cmd.Output()
	for _, line := range bytes.Split(out, []byte("\n")) {
		if len(line) > 0 && line[0] == '{' && json.Unmarshal(line, &rr) == nil && rr.K == "replay" {
			return rr, nil
		}
	}
	return rr, fmt.Errorf("no replay result (%v): %s", err, trunc(string(out), 500))
}

func replay(path string) int {
	b, err := os.ReadFile(path)
	if err != nil {
		fmt.Println(err)
		return 2
	}
	var rp proto.Replay
	if err := json.Unmarshal(b, &rp); err != nil {
		fmt.Println(err)
		return 2
	}
	bw, err := buildWorker(false)
	if err != nil {
		buildError(err)
	}
	defer bw.cleanup()
	rr, err := execReplay(bw.worker, rp)
	if err != nil {
		fmt.Println("INTERNAL-ERROR:", err)
		return 2
	}
	fmt.Printf("recorded: class=%s %s\nobserved: class=%s %s\n", rp.Class, rp.Detail, rr.Class, rr.Detail)
	if rr.Reproduced {
		fmt.Printf("VIOLATION property=%s replay=%s\n", rp.Property, path)
		return 1
	}
	fmt.Println("not reproduced on the current tree")
	return 0
}

func doCurate(prop, tier string, fails []proto.Fail) int {
	if dump := os.Getenv("VERIF_DUMP_FAILS"); dump != "" {
		if f, err := os.Create(dump); err == nil {
			enc := json.NewEncoder(f)
			for _, fl := range fails {
				enc.Encode(fl)
			}
			f.Close()
		}
	}
	cases := loadCases(prop)
	added := 0
	for _, f := range fails {
		if _, ok := cases[f.ID]; !ok {
			added++
		}
		cases[f.ID] = f.Group
	}
	var lines []string
	for id, g := range cases {
		lines = append(lines, id+" "+g)
	}
	sort.Strings(lines)
	os.MkdirAll(filepath.Join(verifDir, "findings"), 0o755)
	if err := saveCases(prop, lines); err != nil {
		fmt.Println(err)
		return 2
	}
	groups := map[string]int{}
	ex := map[string]string{}
	for _, f := range fails {
		groups[f.Group]++
		if _, ok := ex[f.Group]; !ok {
			ex[f.Group] = trunc(string(f.Case), 400) + " :: " + trunc(f.Detail, 200)
		}
	}
	var gs []string
	for g := range groups {
		gs = append(gs, g)
	}
	sort.Strings(gs)
	fmt.Printf("curate %s %s: %d failing cases this run, %d new, %d listed in total\n", prop, tier, len(fails), added, len(lines))
	for _, g := range gs {
		fmt.Printf("  %-40s %6d  e.g. %s\n", g, groups[g], ex[g])
	}
	return 0
}

// ----------------------------------------------------------------- evidence

func writeEvidence(prop, tier string, seed int, s *proto.Summary, violations, unlisted int, kf, flaky []string, wall, buildS float64, shards int, st instr.Stats) {
	cov := map[string]any{
		"evaluations":                   s.Evaluations,
		"distinct_nontrivial":           s.Nontrivial,
		"rule":                          s.Rule,
		"samples":                       s.Samples,
		"states":                        s.States,
		"transitions":                   s.Transitions,
		"traces_validated_against_impl": s.Validated,
		"exhaustive":                    s.Exhaustive && len(s.Caps) == 0,
		"outcomes":                      s.Outcomes,
		"distinct_outcomes":             len(s.Outcomes),
		"caps_hit":                      s.Caps,
		"known_findings_matched":        kf,
		"unlisted_failures":             unlisted,
		"nondeterministic_replays":      flaky,
		"shards":                        shards,
		"build_s":                       buildS,
		"instrumentation": map[string]any{
			"files": st.Files, "loop_heads": st.ForLoops, "cycle_boundaries": st.CycleLoops,
			"map_ranges": st.MapRanges, "go_statements": st.GoStmts, "sends": st.Sends, "added_files": st.Added,
		},
	}
	if s.Caps == nil {
		cov["caps_hit"] = []string{}
	}
	for k, v := range s.Extra {
		if _, exists := cov[k]; !exists {
			cov[k] = v
		}
	}
	ev := map[string]any{
		"property_id": prop,
		"tier":        tier,
		"seed":        seed,
		"level":       "model_checking",
		"coverage":    cov,
		"assumptions": s.Assumptions,
		"wall_s":      wall,
		"violations":  violations,
	}
	if s.Assumptions == nil {
		ev["assumptions"] = []string{}
	}
	os.MkdirAll(filepath.Join(outDir(), "evidence"), 0o755)
	b, _ := json.MarshalIndent(ev, "", " ")
	os.WriteFile(filepath.Join(outDir(), "evidence", prop+".json"), append(b, '\n'), 0o644)
}

func goTestFor(rp proto.Replay) string {
	return fmt.Sprintf(`// Plain reproducer (no explorer): put the replay file next to this test inside /verif and run
//   go test -tags verif -overlay <overlay.json produced by "bin/vcheck instr DIR"> ./cmd/worker -run TestReplay
// or simply: bin/vcheck replay <this file>.
// property=%s class=%s
// case=%s`, rp.Property, rp.Class, trunc(string(rp.Case), 2000))
}
