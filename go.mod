module verif

go 1.22.1

replace github.com/teivah/majorana => /repo

require (
	github.com/teivah/majorana v0.0.0-00010101000000-000000000000
	golang.org/x/tools v0.29.0
)
