// Package proto defines the JSON-lines protocol between the instrumented
// worker processes (cmd/worker) and the driver (cmd/vcheck).
package proto

import "encoding/json"

// Fail is one failing case reported by a worker.
type Fail struct {
	K      string          `json:"k"` // "fail"
	Prop   string          `json:"prop"`
	ID     string          `json:"id"`    // hash of the canonical case + failure class
	Group  string          `json:"group"` // coarse classification used to attach the case to a finding
	Class  string          `json:"class"`
	Case   json.RawMessage `json:"case"`
	Detail string          `json:"detail"`
}

// Summary is the last record a worker writes.
type Summary struct {
	K           string           `json:"k"` // "sum"
	Evaluations int64            `json:"evaluations"`
	Nontrivial  int64            `json:"nontrivial"`
	States      int64            `json:"states"`
	Transitions int64            `json:"transitions"`
	Validated   int64            `json:"validated"`
	Outcomes    map[string]int64 `json:"outcomes"`
	Samples     []any            `json:"samples"`
	Caps        []string         `json:"caps"`
	Exhaustive  bool             `json:"exhaustive"`
	Rule        string           `json:"rule"`
	Assumptions []string         `json:"assumptions"`
	Extra       map[string]any   `json:"extra"`
}

// Replay is the content of a replay file (also what `worker replay` reads).
type Replay struct {
	Property string          `json:"property"`
	ID       string          `json:"id"`
	Group    string          `json:"group"`
	Class    string          `json:"class"`
	Case     json.RawMessage `json:"case"`
	Detail   string          `json:"detail"`
	GoTest   string          `json:"go_test,omitempty"`
	Note     string          `json:"note,omitempty"`
}

// ReplayResult is what `worker replay` prints (one JSON line).
type ReplayResult struct {
	K          string `json:"k"` // "replay"
	Reproduced bool   `json:"reproduced"`
	Class      string `json:"class"`
	ID         string `json:"id"`
	Detail     string `json:"detail"`
}
