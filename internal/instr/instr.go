// Package instr is the source-to-source instrumenter: it rewrites the
// non-test Go files of the repository's current working tree into a build
// directory and produces the overlay.json that `go build -overlay` needs.
// /repo itself is never modified.
package instr

import (
	"bytes"
	"encoding/json"
	"fmt"
	"go/ast"
	"go/format"
	"go/importer"
	"go/parser"
	"go/token"
	"go/types"
	"os"
	"path/filepath"
	"sort"
	"strings"

	"golang.org/x/tools/go/ast/astutil"
)

const RtImport = "github.com/teivah/majorana/verifrt"

type Stats struct {
	Files, ForLoops, CycleLoops, MapRanges, GoStmts, Sends, Added int
	MapRangeSites                                                 []string
}

// Run instruments repo into out (created), maps rtFile as the verifrt package
// and adds every file under overlayDir (mirroring repo-relative package dirs).
// Returns the overlay.json path.
func Run(repo, out, rtFile, overlayDir string) (string, Stats, error) {
	return RunKeyed(repo, repo, out, rtFile, overlayDir)
}

// RunKeyed instruments the tree at repo but keys the overlay by the
// corresponding paths under keyRoot (the directory the module path resolves
// to). With repo != keyRoot every non-test Go file of repo is put into the
// overlay, so that the build sees the alternative tree as a whole (used to
// screen patches in scratch worktrees without touching /repo).
func RunKeyed(repo, keyRoot, out, rtFile, overlayDir string) (string, Stats, error) {
	var st Stats
	if err := os.MkdirAll(out, 0o755); err != nil {
		return "", st, err
	}
	repo, _ = filepath.Abs(repo)
	keyRoot, _ = filepath.Abs(keyRoot)
	replace := map[string]string{}
	var dirs []string
	filepath.Walk(repo, func(p string, fi os.FileInfo, err error) error {
		if err != nil {
			return nil
		}
		if fi.IsDir() {
			if strings.HasPrefix(fi.Name(), ".") && p != repo {
				return filepath.SkipDir
			}
			dirs = append(dirs, p)
		}
		return nil
	})
	sort.Strings(dirs)
	cwd, _ := os.Getwd()
	defer os.Chdir(cwd)
	// the "source" importer resolves module-local imports relative to cwd
	if err := os.Chdir(repo); err != nil {
		return "", st, err
	}
	for _, dir := range dirs {
		fset := token.NewFileSet()
		pkgs, err := parser.ParseDir(fset, dir, func(fi os.FileInfo) bool {
			return !strings.HasSuffix(fi.Name(), "_test.go")
		}, parser.ParseComments)
		if err != nil {
			return "", st, fmt.Errorf("parse %s: %v", dir, err)
		}
		for name, pkg := range pkgs {
			var fnames []string
			for fn := range pkg.Files {
				fnames = append(fnames, fn)
			}
			sort.Strings(fnames)
			var files []*ast.File
			for _, fn := range fnames {
				files = append(files, pkg.Files[fn])
			}
			conf := types.Config{Importer: importer.ForCompiler(fset, "source", nil)}
			info := &types.Info{Types: map[ast.Expr]types.TypeAndValue{}}
			if _, err := conf.Check(name, fset, files, info); err != nil {
				return "", st, fmt.Errorf("typecheck %s: %v", dir, err)
			}
			for i, f := range files {
				rel, _ := filepath.Rel(repo, fnames[i])
				changed := instrument(fset, f, info, rel, &st)
				if !changed {
					if repo != keyRoot {
						replace[filepath.Join(keyRoot, rel)] = fnames[i]
					}
					continue
				}
				astutil.AddImport(fset, f, RtImport)
				var buf bytes.Buffer
				if err := format.Node(&buf, fset, f); err != nil {
					return "", st, fmt.Errorf("format %s: %v", rel, err)
				}
				dst := filepath.Join(out, strings.ReplaceAll(rel, "/", "__"))
				if err := os.WriteFile(dst, buf.Bytes(), 0o644); err != nil {
					return "", st, err
				}
				replace[filepath.Join(keyRoot, rel)] = dst
				st.Files++
			}
		}
	}
	replace[filepath.Join(keyRoot, "verifrt", "rt.go")] = rtFile
	if overlayDir != "" {
		overlayDir, _ = filepath.Abs(overlayDir)
		filepath.Walk(overlayDir, func(p string, fi os.FileInfo, err error) error {
			if err != nil || fi.IsDir() || !strings.HasSuffix(p, ".go") {
				return nil
			}
			rel, _ := filepath.Rel(overlayDir, p)
			replace[filepath.Join(keyRoot, rel)] = p
			st.Added++
			return nil
		})
	}
	b, _ := json.MarshalIndent(map[string]any{"Replace": replace}, "", " ")
	ov := filepath.Join(out, "overlay.json")
	return ov, st, os.WriteFile(ov, b, 0o644)
}

func call(fn string, args ...ast.Expr) *ast.CallExpr {
	return &ast.CallExpr{Fun: &ast.SelectorExpr{X: ast.NewIdent("verifrt"), Sel: ast.NewIdent(fn)}, Args: args}
}

func isBlank(e ast.Expr) bool {
	if e == nil {
		return true
	}
	id, ok := e.(*ast.Ident)
	return ok && id.Name == "_"
}

var uniq int

func instrument(fset *token.FileSet, f *ast.File, info *types.Info, rel string, st *Stats) bool {
	changed := false
	created := map[*ast.BlockStmt]bool{}
	inRun := 0 // inside func (x *CPU) Run
	inGo := 0  // inside a go statement's function literal
	isCPURun := func(fd *ast.FuncDecl) bool {
		if fd.Name.Name != "Run" || fd.Recv == nil || len(fd.Recv.List) != 1 {
			return false
		}
		t := fd.Recv.List[0].Type
		if s, ok := t.(*ast.StarExpr); ok {
			t = s.X
		}
		id, ok := t.(*ast.Ident)
		return ok && id.Name == "CPU"
	}
	tick := func() ast.Stmt {
		if inGo > 0 {
			return &ast.ExprStmt{X: call("TickSpawned")}
		}
		return &ast.ExprStmt{X: call("Tick")}
	}
	pre := func(c *astutil.Cursor) bool {
		switch n := c.Node().(type) {
		case *ast.FuncDecl:
			if isCPURun(n) {
				inRun++
			}
		case *ast.GoStmt:
			inGo++
		}
		return true
	}
	post := func(c *astutil.Cursor) bool {
		switch s := c.Node().(type) {
		case *ast.FuncDecl:
			if isCPURun(s) {
				inRun--
			}
		case *ast.GoStmt:
			inGo--
			// go f(args) -> verifrt.Go(func(){ f(args) })
			lit := &ast.FuncLit{
				Type: &ast.FuncType{Params: &ast.FieldList{}},
				Body: &ast.BlockStmt{List: []ast.Stmt{&ast.ExprStmt{X: s.Call}}},
			}
			c.Replace(&ast.ExprStmt{X: call("Go", lit)})
			st.GoStmts++
			changed = true
		case *ast.SendStmt:
			if _, inSelect := c.Parent().(*ast.CommClause); inSelect {
				return true
			}
			fn := "Send"
			if inGo > 0 {
				fn = "SendSpawned"
			}
			c.Replace(&ast.ExprStmt{X: call(fn, s.Chan, s.Value)})
			st.Sends++
			changed = true
		case *ast.ExprStmt:
			// close(ch) inside a go-literal (also when deferred, see DeferStmt)
			if call2, ok := s.X.(*ast.CallExpr); ok && inGo > 0 {
				if id, ok := call2.Fun.(*ast.Ident); ok && id.Name == "close" && len(call2.Args) == 1 {
					c.Replace(&ast.ExprStmt{X: call("CloseSpawned", call2.Args[0])})
					changed = true
				}
			}
		case *ast.DeferStmt:
			if id, ok := s.Call.Fun.(*ast.Ident); ok && inGo > 0 && id.Name == "close" && len(s.Call.Args) == 1 {
				s.Call = call("CloseSpawned", s.Call.Args[0])
				changed = true
			}
		case *ast.ForStmt:
			stmts := []ast.Stmt{tick()}
			if inRun > 0 && inGo == 0 {
				stmts = append(stmts, &ast.ExprStmt{X: call("Cycle")})
				st.CycleLoops++
			}
			s.Body.List = append(stmts, s.Body.List...)
			st.ForLoops++
			changed = true
		case *ast.RangeStmt:
			s.Body.List = append([]ast.Stmt{tick()}, s.Body.List...)
			st.ForLoops++
			changed = true
			t := info.TypeOf(s.X)
			if t == nil {
				return true
			}
			if _, ok := t.Underlying().(*types.Map); !ok {
				return true
			}
			st.MapRanges++
			st.MapRangeSites = append(st.MapRangeSites, fmt.Sprintf("%s:%d", rel, fset.Position(s.Pos()).Line))
			uniq++
			mv := ast.NewIdent(fmt.Sprintf("__vm%d", uniq))
			kv := ast.NewIdent(fmt.Sprintf("__vk%d", uniq))
			okv := ast.NewIdent(fmt.Sprintf("__vok%d", uniq))
			var prologue []ast.Stmt
			if !isBlank(s.Key) {
				prologue = append(prologue, &ast.AssignStmt{Lhs: []ast.Expr{s.Key}, Tok: s.Tok, Rhs: []ast.Expr{kv}})
				if s.Tok == token.DEFINE {
					prologue = append(prologue, &ast.AssignStmt{Lhs: []ast.Expr{ast.NewIdent("_")}, Tok: token.ASSIGN, Rhs: []ast.Expr{s.Key}})
				}
			}
			// the entry may have been deleted during the iteration: skip it then
			if !isBlank(s.Value) {
				if s.Tok == token.DEFINE {
					prologue = append(prologue,
						&ast.AssignStmt{Lhs: []ast.Expr{s.Value, okv}, Tok: token.DEFINE, Rhs: []ast.Expr{&ast.IndexExpr{X: mv, Index: kv}}},
						&ast.AssignStmt{Lhs: []ast.Expr{ast.NewIdent("_")}, Tok: token.ASSIGN, Rhs: []ast.Expr{s.Value}})
				} else {
					prologue = append(prologue,
						&ast.DeclStmt{Decl: &ast.GenDecl{Tok: token.VAR, Specs: []ast.Spec{&ast.ValueSpec{Names: []*ast.Ident{okv}, Type: ast.NewIdent("bool")}}}},
						&ast.AssignStmt{Lhs: []ast.Expr{s.Value, okv}, Tok: token.ASSIGN, Rhs: []ast.Expr{&ast.IndexExpr{X: mv, Index: kv}}})
				}
			} else {
				prologue = append(prologue,
					&ast.AssignStmt{Lhs: []ast.Expr{ast.NewIdent("_"), okv}, Tok: token.DEFINE, Rhs: []ast.Expr{&ast.IndexExpr{X: mv, Index: kv}}})
			}
			prologue = append(prologue, &ast.IfStmt{Cond: &ast.UnaryExpr{Op: token.NOT, X: okv},
				Body: &ast.BlockStmt{List: []ast.Stmt{&ast.BranchStmt{Tok: token.CONTINUE}}}})
			newFor := &ast.RangeStmt{Key: ast.NewIdent("_"), Value: kv, Tok: token.DEFINE, X: call("Order", mv),
				Body: &ast.BlockStmt{List: append(prologue, s.Body.List...)}}
			assign := &ast.AssignStmt{Lhs: []ast.Expr{mv}, Tok: token.DEFINE, Rhs: []ast.Expr{s.X}}
			blk := &ast.BlockStmt{List: []ast.Stmt{assign, newFor}}
			created[blk] = true
			c.Replace(blk)
		case *ast.LabeledStmt:
			// L: for k := range m  was turned into  L: { m := X; for .. } by the
			// case above; move the label back onto the loop.
			if blk, ok := s.Stmt.(*ast.BlockStmt); ok && created[blk] {
				loop := blk.List[1]
				blk.List[1] = &ast.LabeledStmt{Label: s.Label, Colon: s.Colon, Stmt: loop}
				c.Replace(blk)
			}
		}
		return true
	}
	astutil.Apply(f, pre, post)
	return changed
}
